---------------------------- MODULE MC_SpatialIndex ----------------------------
(* C06 - construction ROUTES of a lanelet network as a small state machine.                            *)
(*   polys : lanelet id -> ring          the truth (the lanelets the network holds)                     *)
(*   index : lanelet id -> ring          the snapshot the lookups consult (STRtree + id map)            *)
(* Contract: whenever a route is complete (mode = "ready") index = polys, hence every lookup equals    *)
(* the brute-force answer over polys.  Deviation constants model routes that forget to (re)build the   *)
(* index or map polygons to wrong ids; TLC must produce their counterexamples (DEV_SpatialIndex_*.cfg). *)
(* The same module emits the cases of the spec -> code direction (GEN_SpatialIndex*.cfg).               *)
EXTENDS SpatialIndex
SX == INSTANCE SequencesExt

CONSTANTS Fams,                 \* family names explored by this configuration
          MaxRoutes,            \* length bound of a route sequence (builder included)
          PerClass,             \* GEN: query shapes kept per (kind, class)
          DEV_RemoveNoRebuild,  \* remove_lanelet leaves the tree alone (what rtree=False does)
          DEV_MoveNoRebuild,    \* translate_rotate keeps the tree of the old polygons (defect fixed in 0df4737)
          DEV_CopyMisMaps,      \* deepcopy keeps the id(polygon) -> lanelet id map of the ORIGINAL: wrong ids
          DEV_PickleNoRebuild,  \* __setstate__ without _create_strtree: nothing is indexed
          DEV_AddRebuildsFirst, \* add_lanelet rebuilds the tree BEFORE inserting: the last lanelet is missing
          DEV_DeferredRemoveKeepsPolygon, \* remove_lanelet(id, rtree=False) leaves the polygon in the dictionary the index is
                                \* rebuilt from: the next rebuild resurrects the removed lanelet (seeded change C06-2)
          DEV_ForkSharesLanelets, \* create_from_lanelet_list(cleanup_ids=False) does not copy the lanelets: a network derived from
                                \* another one shares its Lanelet objects, and moving the derived network moves the lanelets of the
                                \* original while the original's index stays (seeded change C06-5)
          ForkAll,              \* TRUE: a second network may be derived from every network ; FALSE: only from from_list(0) ones
          DEV_DrawMovesVertices, \* drawing the network writes into the boundary arrays of the lanelets (a view instead of a copy):
                                \* the first vertex of every right boundary moves towards the second one, polygon and index stay (seed C06-6)
          DEV_RectKeepsExportedPolygon, \* the setters of a Rectangle clear the cached vertices but not the exported polygon, which is
                                \* rebuilt only when it or the vertices are missing: export, set, read vertices, query -> old pose (seed C06-7)
          ShapeHist,            \* TRUE: this configuration also explores the shape histories (mode "shape")
          DEV_DiscHalfRadius    \* lookups by shape use the exported disc of radius r/2 (Circle.shapely_object = buffer(radius / 2))

VARIABLES fam,    \* the family under construction
          polys,  \* lanelet id -> ring: the truth
          buf,    \* lanelet id -> ring: the dictionary the index is REBUILT from (_buffered_polygons)
          index,  \* lanelet id -> ring: the snapshot the lookups consult
          mode,   \* "new" | "add_each" | "add_defer" | "ready"
          dirty,  \* a deferred step (rtree=False) happened since the last rebuild: the index may be stale (band B3)
          hist,   \* the route sequence
          (* two-network histories: a network B derived from A ("fork"); from then on polys / buf / index describe B *)
          forked, \* "" or the kind of derivation
          apolys, \* the lanelets of the ORIGINAL network A (its truth now)
          aindex, \* A's index snapshot
          asnap,  \* A's lanelets at the moment B was derived (A's geometry must never change afterwards)
          (* shape histories (mode = "shape"): one shape object, its attributes and its two caches *)
          sphase, \* 0 fresh, 1 exported, 2 attribute set, 3 vertices read / drawn, 4 queried
          sinit,  \* the shape as constructed
          scur,   \* the shape its CURRENT attributes denote
          svc,    \* cached vertices: <<>> or <<the shape they were computed from>>
          sgc,    \* cached exported geometry: <<>> or <<the shape it was computed from>>
          sans    \* what the last export / query answered for: <<>> or <<shape>>
svars == <<sphase, sinit, scur, svc, sgc, sans>>
vars == <<fam, polys, buf, index, mode, dirty, hist, forked, apolys, aindex, asnap, sphase, sinit, scur, svc, sgc, sans>>
KeepA == UNCHANGED <<forked, apolys, aindex, asnap>> /\ UNCHANGED svars

Rt(r, a) == [r |-> r, a |-> a]
Empty    == [i \in {} |-> <<>>]
TruthRing(f, i) == LET N == FamNet(f) IN N[CHOOSE k \in DOMAIN N : N[k].id = i].v
Target(f) == [i \in Ids(FamNet(f)) |-> TruthRing(f, i)]
Order(f)  == [k \in DOMAIN FamNet(f) |-> FamNet(f)[k].id]                    \* insertion order of the builders
Ext(g, i, v) == [j \in DOMAIN g \cup {i} |-> IF j = i THEN v ELSE g[j]]
Restrict(g, S) == [j \in S |-> g[j]]
MoveFn(m, g) == [j \in DOMAIN g |-> MoveRing(m, g[j])]
Over(g, h) == [j \in DOMAIN g \cup DOMAIN h |-> IF j \in DOMAIN h THEN h[j] ELSE g[j]]    \* g overwritten by h
(* wrong ids: every polygon is reported under the id of its cyclic successor *)
Shift(g) == LET ids == SX!SetToSortSeq(DOMAIN g, <) n == Len(ids) IN
            [j \in DOMAIN g |-> g[ids[((CHOOSE k \in 1..n : ids[k] = j) % n) + 1]]]

Motions == {<<2, -2, 0>>, <<0, 0, 1>>, <<2, 2, 2>>, <<-6, 4, 3>>}              \* doubled lattice translation, quarter turns
RectS(c, l, w, rot) == [k |-> "rect", c |-> c, l |-> l, w |-> w, rot |-> rot]
Cuts    == <<RectS(<<2, 2>>, 2, 2, Id),                                        \* [0,2]x[0,2]: touches neighbours along x = 2 / y = 2
             RectS(<<7, 3>>, 1, 1, Id),                                        \* the cell [3,4]x[1,2]
             [k |-> "poly", v |-> <<<<4, 0>>, <<12, 0>>, <<12, 8>>>>],          \* triangle below the diagonal (2,0)-(6,4)
             [k |-> "disc", c |-> <<4, -3>>, r |-> 4]>>                         \* radius 2 around (2,-1.5): reaches y = 0 at 0.75 r

HistSeeds == <<RectS(<<5, 3>>, 4, 2, Id), RectS(<<4, 2>>, 4, 2, <<0, 1, 1>>), RectS(<<3, 1>>, 10, 10, <<3, 4, 5>>),
               [k |-> "disc", c |-> <<3, 5>>, r |-> 8], [k |-> "poly", v |-> <<<<0, 0>>, <<8, 0>>, <<0, 8>>>>],
               [k |-> "group", ms |-> <<RectS(<<2, 4>>, 2, 4, Id), [k |-> "disc", c |-> <<8, 4>>, r |-> 4]>>]>>
Init == /\ polys = Empty /\ buf = Empty /\ index = Empty /\ dirty = FALSE /\ hist = <<>>
        /\ forked = "" /\ apolys = Empty /\ aindex = Empty /\ asnap = Empty
        /\ sphase = 0 /\ svc = <<>> /\ sgc = <<>> /\ sans = <<>>
        /\ \/ fam \in Fams /\ mode = "new" /\ sinit = <<>> /\ scur = <<>>
           \/ ShapeHist /\ fam = (CHOOSE f \in Fams : TRUE) /\ mode = "shape"
                        /\ \E i \in DOMAIN HistSeeds : sinit = <<HistSeeds[i]>> /\ scur = HistSeeds[i]

(* a freshly built network: bookkeeping and index are made from the lanelets handed over *)
Fresh(p)  == polys' = p /\ buf' = p /\ index' = p /\ dirty' = FALSE
Ready(h)  == mode' = "ready" /\ hist' = h /\ KeepA
FromList(c)    == mode = "new" /\ Fresh(Target(fam)) /\ Ready(<<Rt("from_list", <<c>>)>>) /\ UNCHANGED fam
AddFromNet     == mode = "new" /\ Fresh(Target(fam)) /\ Ready(<<Rt("add_from_network", <<>>)>>) /\ UNCHANGED fam
ViaScenario    == mode = "new" /\ Fresh(Target(fam)) /\ Ready(<<Rt("scenario_add", <<>>)>>) /\ UNCHANGED fam
(* lanelet by lanelet: add_lanelet(l, rtree) ; "add_each": always rtree=True ; "add_defer": rtree=False except for the last one *)
StartAdd(b)    == mode = "new" /\ mode' = b /\ UNCHANGED <<fam, polys, buf, index, dirty, hist>> /\ KeepA
AddLanelet     == /\ mode \in {"add_each", "add_defer"}
                  /\ LET ord == Order(fam)  k == Cardinality(DOMAIN polys) + 1  i == ord[k]
                         last == k = Len(ord)
                         rtree == mode = "add_each" \/ last
                         np == Ext(polys, i, TruthRing(fam, i))
                     IN /\ polys' = np /\ buf' = np
                        /\ index' = IF ~rtree THEN index ELSE IF DEV_AddRebuildsFirst THEN polys ELSE np
                        /\ IF last THEN Ready(<<Rt(mode, <<>>)>>) ELSE UNCHANGED <<mode, hist>> /\ KeepA
                  /\ UNCHANGED <<fam, dirty>>
(* a route sequence has at most MaxRoutes steps; after a deferred step one more step is always allowed for the networks   *)
(* built by from_list(0), so that "deferred, then each rebuilding operation" is explored without raising the bound        *)
IsFork(rt) == rt.r \in {"fork_list", "fork_network", "fork_network_cut", "fork_deepcopy"}
More == /\ mode = "ready"
        /\ \/ Len(hist) < MaxRoutes
           \/ (Len(hist) = MaxRoutes /\ dirty /\ hist[1] = Rt("from_list", <<0>>))
(* ... and one MUTATION (translate_rotate, add, remove) of a network that has just been derived from another one *)
MoreMut == More \/ (mode = "ready" /\ Len(hist) = MaxRoutes /\ forked # "" /\ IsFork(hist[MaxRoutes]))
LogH(r, a)     == hist' = Append(hist, Rt(r, a)) /\ UNCHANGED <<fam, mode>> /\ UNCHANGED svars
LogA(r, a)     == LogH(r, a) /\ KeepA
Log(r)         == LogA(r, <<>>)
(* operations that REBUILD the index from the bookkeeping dictionary *)
Rebuilt(b)     == buf' = b /\ index' = b /\ dirty' = FALSE
DeepCopy       == More /\ polys' = polys /\ buf' = buf /\ dirty' = FALSE
                       /\ index' = (IF DEV_CopyMisMaps THEN Shift(buf) ELSE buf) /\ Log("deepcopy")
DeepCopyOrig   == More /\ polys' = polys /\ Rebuilt(buf) /\ Log("deepcopy_orig")   \* the ORIGINAL after it has been copied (tree reset and restored)
Pickle         == More /\ polys' = polys /\ buf' = buf /\ dirty' = FALSE
                       /\ index' = (IF DEV_PickleNoRebuild THEN Empty ELSE buf) /\ Log("pickle")
(* operations that build a NEW network from the lanelets *)
ReadXml        == More /\ Fresh(polys) /\ Log("xml")
ReadPb         == More /\ Fresh(polys) /\ Log("pb")
ReadXmlNet     == More /\ Fresh(polys) /\ Log("xml_net")         \* CommonRoadFileReader.open_lanelet_network
ReadPbNet      == More /\ Fresh(polys) /\ Log("pb_net")
FromNetwork(c) == /\ More
                  /\ LET keep == {i \in DOMAIN polys : ShapeRel(polys[i], Cuts[c], FALSE) = "T"} IN
                     keep # {} /\ Fresh(Restrict(polys, keep))
                  /\ LogA("from_network", <<c>>)
Remove(i)      == /\ MoreMut /\ i \in DOMAIN polys /\ Cardinality(DOMAIN polys) >= 2
                  /\ polys' = Restrict(polys, DOMAIN polys \ {i})
                  /\ buf' = Restrict(buf, DOMAIN buf \ {i}) /\ dirty' = FALSE
                  /\ index' = IF DEV_RemoveNoRebuild THEN index ELSE buf'
                  /\ LogA("remove", <<i>>)
Motion(m)      == /\ MoreMut /\ polys' = MoveFn(m, polys)
                  /\ buf' = Over(buf, polys') /\ dirty' = FALSE          \* the entries of the current lanelets are replaced
                  /\ index' = IF DEV_MoveNoRebuild THEN index ELSE buf'
                  (* the lanelets of the original A are A's own objects: moving B does not touch them *)
                  /\ apolys' = IF DEV_ForkSharesLanelets /\ forked = "fork_list0"
                                THEN Over(apolys, Restrict(polys', DOMAIN apolys \cap DOMAIN polys')) ELSE apolys
                  /\ UNCHANGED <<forked, aindex, asnap>>
                  /\ LogH("translate_rotate", m)
(* the extra lanelet: add_lanelet(x) / add_lanelet(x, rtree=False) / add_lanelets_from_network(network holding x) *)
AddExtra(r)    == /\ MoreMut /\ ExtraId \notin DOMAIN polys
                  /\ polys' = Ext(polys, ExtraId, RingOf(Extra)) /\ buf' = Ext(buf, ExtraId, RingOf(Extra))
                  /\ IF r = 0 THEN index' = index /\ dirty' = TRUE ELSE index' = buf' /\ dirty' = FALSE
                  /\ LogA("add_extra", <<r>>)
AddExtraNet    == /\ MoreMut /\ ExtraId \notin DOMAIN polys
                  /\ polys' = Ext(polys, ExtraId, RingOf(Extra)) /\ Rebuilt(Ext(buf, ExtraId, RingOf(Extra)))
                  /\ Log("add_extra_net")
(* remove_lanelet(i, rtree=False): gone from the network at once, the index keeps answering for it until the next rebuild *)
RemoveNoRtree(i) == /\ MoreMut /\ i \in DOMAIN polys /\ Cardinality(DOMAIN polys) >= 2
                    /\ polys' = Restrict(polys, DOMAIN polys \ {i})
                    /\ buf' = IF DEV_DeferredRemoveKeepsPolygon THEN buf ELSE Restrict(buf, DOMAIN buf \ {i})
                    /\ index' = index /\ dirty' = TRUE
                    /\ LogA("remove_nortree", <<i>>)
(* drawing (and rendering) the network n times: read-only, nothing moves, nothing is rebuilt *)
Nudge(ring)    == [ring EXCEPT ![1] = <<@[1] + Sgn(ring[2][1] - @[1]), @[2] + Sgn(ring[2][2] - @[2])>>]
Draw(n)        == /\ More
                  /\ polys' = IF DEV_DrawMovesVertices THEN [i \in DOMAIN polys |-> Nudge(polys[i])] ELSE polys
                  /\ UNCHANGED <<buf, index, dirty>>
                  /\ LogA("draw", <<n>>)
(* a second network B derived from the current one (A): A is kept, the following steps act on B *)
Fork(h)        == /\ More /\ forked = "" /\ ~dirty /\ (ForkAll \/ hist[1] = Rt("from_list", <<0>>))
                  /\ forked' = h /\ apolys' = polys /\ aindex' = index /\ asnap' = polys
ForkList(c)    == Fork(IF c = 0 THEN "fork_list0" ELSE "fork_list1") /\ Fresh(polys) /\ LogH("fork_list", <<c>>)   \* create_from_lanelet_list(A.lanelets, c)
ForkNet        == Fork("fork_network") /\ Fresh(polys) /\ LogH("fork_network", <<>>)                              \* create_from_lanelet_network(A)
ForkCut(c)     == /\ Fork("fork_network_cut")
                  /\ LET keep == {i \in DOMAIN polys : ShapeRel(polys[i], Cuts[c], FALSE) = "T"} IN keep # {} /\ Fresh(Restrict(polys, keep))
                  /\ LogH("fork_network_cut", <<c>>)
ForkCopy       == Fork("fork_deepcopy") /\ polys' = polys /\ Rebuilt(buf) /\ LogH("fork_deepcopy", <<>>)         \* copy.deepcopy(A)
(* ---------------- shape histories: export -> set an attribute -> (read vertices / draw) -> query ---------------- *)
(* The contract: whatever was cached, an export / query answers for the shape the CURRENT attributes denote.          *)
NetQuiet == UNCHANGED <<fam, polys, buf, index, mode, dirty, forked, apolys, aindex, asnap, sinit>>
AttrsOf(s) == CASE s.k = "rect" -> {"center", "orientation", "length", "width"} [] s.k = "disc" -> {"center", "radius"}
                [] s.k = "poly" -> {"vertices"} [] s.k = "group" -> {"center", "orientation", "length", "width"}      \* of member 1
UpdPrim(s, at) == CASE at = "center"      -> [s EXCEPT !.c = <<@[1] + 4, @[2] - 2>>]
                    [] at = "orientation" -> [s EXCEPT !.rot = MoveRot(1, @)]
                    [] at = "length"      -> [s EXCEPT !.l = @ + 2]
                    [] at = "width"       -> [s EXCEPT !.w = @ + 2]
                    [] at = "radius"      -> [s EXCEPT !.r = @ + 4]
                    [] at = "vertices"    -> [s EXCEPT !.v = [i \in DOMAIN @ |-> <<@[i][1] + 4, @[i][2] + 2>>]]
Upd(s, at) == IF s.k = "group" THEN [s EXCEPT !.ms[1] = UpdPrim(@, at)] ELSE UpdPrim(s, at)
IsRectLike(s) == s.k = "rect" \/ s.k = "group"
(* vertices are computed from the attributes when missing; the exported geometry is built from the vertices when missing *)
Vert        == IF svc = <<>> THEN <<scur>> ELSE svc
Answering   == IF sgc = <<>> \/ (DEV_RectKeepsExportedPolygon /\ IsRectLike(scur) /\ svc = <<>>) THEN Vert ELSE sgc
SExport(how) == /\ mode = "shape" /\ sphase = 0 /\ sphase' = 1
                /\ svc' = Vert /\ sgc' = Answering /\ sans' = Answering /\ scur' = scur
                /\ hist' = Append(hist, Rt("export", <<how>>)) /\ NetQuiet
SSet(at)     == /\ mode = "shape" /\ sphase \in {0, 1} /\ at \in AttrsOf(scur) /\ sphase' = 2
                /\ scur' = Upd(scur, at) /\ svc' = <<>> /\ sans' = <<>>
                /\ sgc' = IF DEV_RectKeepsExportedPolygon /\ IsRectLike(scur) THEN sgc ELSE <<>>
                /\ hist' = Append(hist, Rt("set_" \o at, <<>>)) /\ NetQuiet
SRead(k)     == /\ mode = "shape" /\ sphase = 2 /\ sphase' = 3 /\ (k = 1 => scur.k # "disc")     \* 1: .vertices (a circle has none), 2: draw
                /\ svc' = Vert /\ UNCHANGED <<scur, sgc, sans>>
                /\ hist' = Append(hist, Rt("read", <<k>>)) /\ NetQuiet
SQuery       == /\ mode = "shape" /\ sphase \in {2, 3} /\ sphase' = 4
                /\ svc' = Vert /\ sgc' = Answering /\ sans' = Answering /\ scur' = scur
                /\ hist' = Append(hist, Rt("query", <<>>)) /\ NetQuiet
ShapeAnswers == (mode = "shape" /\ sphase \in {1, 4}) => sans = <<scur>>

Next == \/ \E how \in 1..4 : SExport(how)
        \/ \E at \in {"center", "orientation", "length", "width", "radius", "vertices"} : SSet(at)
        \/ \E k \in {1, 2} : SRead(k)
        \/ SQuery
        \/ \E c \in {0, 1} : FromList(c)
        \/ AddFromNet \/ ViaScenario \/ StartAdd("add_each") \/ StartAdd("add_defer") \/ AddLanelet
        \/ DeepCopy \/ DeepCopyOrig \/ Pickle \/ ReadXml \/ ReadPb \/ ReadXmlNet \/ ReadPbNet
        \/ \E c \in DOMAIN Cuts : FromNetwork(c)
        \/ \E i \in 11..15 : Remove(i)
        \/ \E m \in Motions : Motion(m)
        \/ \E r \in {0, 1} : AddExtra(r)
        \/ AddExtraNet
        \/ \E i \in 11..15 : RemoveNoRtree(i)
        \/ \E n \in {1, 2} : Draw(n)
        \/ \E c \in {0, 1} : ForkList(c)
        \/ ForkNet \/ ForkCopy \/ \E c \in {1, 3} : ForkCut(c)
Spec == Init /\ [][Next]_vars

(* ---------------- the contract ---------------- *)
Lookup(ix, p)      == {i \in DOMAIN ix : InPoly(ix[i], p)}
LookupShape(ix, s) == {i \in DOMAIN ix : ShapeRelH(ix[i], s, FALSE, IF DEV_DiscHalfRadius THEN 4 ELSE 1) = "T"}
AsNet(g) == LET ids == SX!SetToSortSeq(DOMAIN g, <) IN [k \in DOMAIN ids |-> [id |-> ids[k], v |-> g[ids[k]]]]
ProbePts == {<<x, y>> : x \in {-1, 0, 2, 3, 4, 7}, y \in {0, 1, 2, 4, 5}}
ProbeShapes == {[k |-> "rect", c |-> <<5, 3>>, l |-> 1, w |-> 1, rot |-> Id],
                [k |-> "rect", c |-> <<4, 2>>, l |-> 2, w |-> 1, rot |-> <<0, 1, 1>>],
                [k |-> "rect", c |-> <<-7, 1>>, l |-> 5, w |-> 5, rot |-> <<3, 4, 5>>],          \* corner (0,2) touches x = 0
                [k |-> "disc", c |-> <<9, 5>>, r |-> 2],
                [k |-> "disc", c |-> <<4, -3>>, r |-> 4],                                       \* 0.75 r below y = 0
                [k |-> "poly", v |-> <<<<6, 6>>, <<10, 6>>, <<6, 10>>>>]}
Settled == mode = "ready" /\ ~dirty                  \* no deferred step is pending
IndexMirrors == Settled => index = polys
(* two networks: whatever happens to B, A keeps its geometry and A's index keeps mirroring it *)
OriginalIsolated == forked # "" => apolys = asnap /\ aindex = apolys
BufMirrors   == mode = "ready" => buf = polys          \* the bookkeeping follows the network at once, deferred or not
(* band (B3): while deferred steps are pending, the index differs from the truth at most on the lanelets they touched *)
DirtyOnlyPending == (mode = "ready" /\ dirty) =>
                       \A i \in (DOMAIN index \cup DOMAIN polys) \ Pending(hist) :
                          i \in DOMAIN index /\ i \in DOMAIN polys /\ index[i] = polys[i]
QueriesExact == Settled => LET N == AsNet(polys) IN
                                  /\ \A p \in ProbePts : Lookup(index, p) = ByPosition(N, p)
                                  /\ \A s \in ProbeShapes : LookupShape(index, s) = ByShape(N, s)
TypeOK == mode \in {"new", "add_each", "add_defer", "ready", "shape"} /\ UniqueIds(FamNet(fam))

(* laws of the functional core, evaluated on the rings / probe sets of the current state *)
Shallow == mode = "ready" /\ Len(hist) = 1            \* the rings of deeper states are motion images / subsets of these
LawsPoint == Shallow => \A i \in DOMAIN polys : \A p \in ProbePts :
                /\ LawStrictClosed(polys[i], p)
                /\ \A s \in ProbeShapes : LawPointShape(polys[i], s, p) /\ LawBands(polys[i], s, p)
LawsRect  == mode = "new" => \A s \in {t \in ProbeShapes : t.k = "rect"} :
                                \A p \in {<<s.c[1] + dx, s.c[2] + dy>> : dx \in -9..9, dy \in -9..9} : LawRectRing(s, p)
LawsPoly  == Shallow => \A i, j \in DOMAIN polys : LawMeetSym(polys[i], polys[j]) /\ LawStrongMeet(polys[i], polys[j])
LawsMove  == Shallow => LET N == AsNet(polys) IN
                \A m \in Motions : /\ \A p \in ProbePts : LawMotion(m, N, p)
                                   /\ \A s \in ProbeShapes : LawMotionShape(m, N, s)
LawsDisc  == mode = "new" => \A r \in {2, 4, 8, 20} : \A p \in {<<x, y>> : x \in -22..22, y \in {-21, -16, -8, -4, -3, 0, 1, 2, 5, 12, 20}} :
                LawDiscExport([k |-> "disc", c |-> <<0, 0>>, r |-> r], p)
ASSUME LawRots == \A r \in Rots : IsRot(r)

(* ---------------- generation (spec -> code) ---------------- *)
(* query points of a family: the doubled lattice around the 6 x 4 area (lattice points, edge mid points, cell centres)  *)
(* plus far away points, grouped by their position class relative to the family                                          *)
Grid == {<<x, y>> : x \in -2..14, y \in -2..10}
Far  == {<<200, 200>>, <<-200, 6>>, <<6, -300>>}
PtClass(N, p) == LET nin == Cardinality({k \in DOMAIN N : InPoly(N[k].v, p)})
                     nbd == Cardinality({k \in DOMAIN N : OnBoundary(N[k].v, p)})
                     isv == \E k \in DOMAIN N : p \in Range(N[k].v)
                 IN IF p \in Far THEN "far" ELSE IF nin = 0 THEN "outside"
                    ELSE IF nbd = 0 THEN (IF nin = 1 THEN "interior" ELSE "interior-overlap")
                    ELSE IF isv THEN "corner" ELSE IF nbd >= 2 THEN "on-shared-edge"
                    ELSE IF nin > nbd THEN "on-edge-inside-other" ELSE "on-edge"
PtClasses == <<"far", "outside", "interior", "interior-overlap", "corner", "on-shared-edge", "on-edge-inside-other", "on-edge">>
PointGroups(N) == LET G == [c \in Range(PtClasses) |-> {p \in Grid \cup Far : PtClass(N, p) = c}] IN
                  SelectSeq([i \in DOMAIN PtClasses |-> [cls |-> PtClasses[i], pts |-> SX!SetToSeq(G[PtClasses[i]])]],
                            LAMBDA g : g.pts # <<>>)

(* probe points around the start / end corners of both boundaries of every lanelet, in units of 1/16 (8 x doubled):   *)
(* offsets 1/16, 3/16 along and across the boundary, on it and on both sides (for the lookups after a draw step)    *)
FineScale == 8
Corners(ring) == {ring[1], ring[Len(ring) \div 2], ring[Len(ring) \div 2 + 1], ring[Len(ring)]}
WedgePts(N) == UNION {{<<FineScale * c[1] + dx, FineScale * c[2] + dy>> : dx \in {-3, -1, 0, 1, 3}, dy \in {-3, -1, 0, 1, 3}} :
                        c \in UNION {Corners(N[k].v) : k \in DOMAIN N}}

(* query shapes: candidates of each kind, classified against the family, PerClass kept per (kind, class) *)
Pick(q, n) == LET m == Min(n, Len(q)) IN [i \in 1..m |-> q[1 + ((i - 1) * Len(q)) \div m]]
Contacts(P, Q) == {P[i] : i \in {j \in 1..Len(P) : InPoly(Q, P[j])}} \cup {Q[i] : i \in {j \in 1..Len(Q) : InPoly(P, Q[j])}}
RingClass(N, Q, den) ==           \* Q a ring in coordinates scaled by den
    LET R(k) == Scale(N[k].v, den)
        meet   == {k \in DOMAIN N : PolyMeet(R(k), Q)}
        strong == {k \in meet : PolyStrong(R(k), Q) \/ \A j \in 1..Len(Q) : InPoly(R(k), Q[j])}
    IN IF meet = {} THEN "disjoint"
       ELSE IF \E k \in meet : \A j \in 1..Len(Q) : InPoly(R(k), Q[j]) THEN "inside"
       ELSE IF strong # {} THEN "overlapping"
       ELSE IF \E k \in meet : Cardinality(Contacts(R(k), Q)) >= 2 THEN "touching-edge" ELSE "touching-corner"
DiscClass(N, s) ==
    LET half == [s EXCEPT !.r = s.r \div 2]
        rel(k) == DiscRel(N[k].v, s) IN
    IF \E k \in DOMAIN N : rel(k) = "T" /\ DiscRel(N[k].v, half) # "T" THEN "reaching"          \* contact between 0.5 r and 0.99 r
    ELSE IF \E k \in DOMAIN N : rel(k) = "EITHER" THEN "touching"
    ELSE IF \E k \in DOMAIN N : InPoly(N[k].v, s.c) THEN "inside"
    ELSE IF \E k \in DOMAIN N : rel(k) = "T" THEN "overlapping" ELSE "disjoint"
ShapeClass(N, s) == CASE s.k = "rect" -> RingClass(N, RectRing(s), s.rot[3])
                      [] s.k = "poly" -> RingClass(N, s.v, 1)
                      [] s.k = "disc" -> DiscClass(N, s)
Dense == PerClass > 2                          \* thorough tier: the full candidate sets
Cands(kind) ==
    CASE kind = "rect0"   -> {RectS(<<x, y>>, 1, 1, Id) : x \in IF Dense THEN -1..13 ELSE {-1, 0, 1, 2, 3, 4, 5, 7, 9, 13},
                                                          y \in IF Dense THEN -1..9 ELSE {-1, 0, 1, 2, 3, 5, 9}} \cup
                             {RectS(<<x, y>>, 2, 1, Id) : x \in IF Dense THEN {0, 2, 4, 6, 8, 10, 12} ELSE {0, 4, 8, 12},
                                                          y \in IF Dense THEN {-1, 1, 3, 5, 7, 9} ELSE {1, 3, 5}}
      [] kind = "rectq"   -> {RectS(<<x, y>>, 2, 1, <<0, 1, 1>>) : x \in IF Dense THEN {-1, 1, 3, 5, 7, 9, 11, 13} ELSE {-1, 1, 3, 5, 9, 13},
                                                                   y \in IF Dense THEN {-2, 0, 2, 4, 6, 8, 10} ELSE {-2, 0, 2, 4, 8}} \cup
                             {RectS(<<x, y>>, 1, 1, <<-1, 0, 1>>) : x \in {1, 4, 5}, y \in {1, 2, 3}}
      [] kind = "rect345" -> {RectS(<<x, y>>, 5, 5, <<3, 4, 5>>) : x \in IF Dense THEN -7..19 ELSE {-7, -5, -3, -1, 1, 3, 5, 9, 13, 19},
                                                                   y \in IF Dense THEN {-7, -5, -1, 1, 3, 6, 9, 11, 15} ELSE {-7, -1, 1, 6, 11, 15}} \cup
                             {RectS(<<x, y>>, 2, 1, <<4, -3, 5>>) : x \in IF Dense THEN {-2, 0, 1, 3, 4, 6, 9} ELSE {-2, 1, 3, 6},
                                                                    y \in IF Dense THEN {-2, 0, 1, 3, 4, 7} ELSE {-2, 1, 3, 7}}
      [] kind = "disc"    -> {[k |-> "disc", c |-> <<x, y>>, r |-> r] : x \in IF Dense THEN -4..16 ELSE {-4, -3, -2, -1, 0, 1, 3, 5, 8, 12},
                                                                        y \in IF Dense THEN {-4, -3, -2, -1, 0, 1, 3, 4, 6, 9, 11, 12} ELSE {-4, -3, -2, -1, 1, 3, 6},
                                                                        r \in {2, 4}}
      [] kind = "poly"    -> {[k |-> "poly", v |-> <<<<x, y>>, <<x + 2, y>>, <<x, y + 2>>>>] :
                                  x \in IF Dense THEN {-2, 0, 1, 2, 4, 6, 7, 12} ELSE {-2, 0, 1, 2, 4, 7}, y \in IF Dense THEN {-2, 0, 1, 2, 4, 6, 8} ELSE {-2, 0, 1, 2, 4, 6}} \cup
                             {[k |-> "poly", v |-> <<<<x - 2, y>>, <<x, y - 2>>, <<x + 2, y>>, <<x, y + 2>>>>] :
                                  x \in IF Dense THEN {-2, 0, 2, 3, 4, 8} ELSE {-2, 0, 2, 3, 4}, y \in IF Dense THEN {-2, 0, 1, 2, 4, 6} ELSE {-2, 0, 1, 2, 4}}
Kinds   == <<"rect0", "rectq", "rect345", "disc", "poly">>
Classes == <<"inside", "overlapping", "reaching", "touching", "touching-edge", "touching-corner", "disjoint">>
ShapeQueries(N) ==
    LET of(kind) == LET C == Cands(kind)
                        cl == [s \in C |-> ShapeClass(N, s)]
                        grp(c) == Pick(SX!SetToSeq({s \in C : cl[s] = c}), PerClass)
                    IN [c \in DOMAIN Classes |-> [i \in DOMAIN grp(Classes[c]) |->
                            [kind |-> kind, cls |-> Classes[c], shape |-> grp(Classes[c])[i]]]]
    IN SX!FlattenSeq([k \in DOMAIN Kinds |-> SX!FlattenSeq(of(Kinds[k]))])

(* shapes of part 2 with their probe points (9 x 9 grid in the frame of the shape, boundary points included) *)
K9 == -4..4
RectProbes(s) == {<<s.c[1] + (s.rot[1] * i * (s.l \div 2) - s.rot[2] * j * (s.w \div 2)) \div s.rot[3],
                    s.c[2] + (s.rot[2] * i * (s.l \div 2) + s.rot[1] * j * (s.w \div 2)) \div s.rot[3]>> : i \in K9, j \in K9}
BoxProbes(x0, y0, sx, sy) == {<<x0 + i * sx, y0 + j * sy>> : i \in K9, j \in K9}
ShapeTable ==
  <<[name |-> "rect0",   shape |-> RectS(<<5, 3>>, 4, 2, Id)],
    [name |-> "rect0h",  shape |-> RectS(<<0, 0>>, 2, 6, Id)],
    [name |-> "rectq1",  shape |-> RectS(<<4, 2>>, 4, 2, <<0, 1, 1>>)],
    [name |-> "rectq2",  shape |-> RectS(<<-3, 7>>, 2, 4, <<-1, 0, 1>>)],
    [name |-> "rectq3",  shape |-> RectS(<<1, 1>>, 4, 2, <<0, -1, 1>>)],
    [name |-> "rect345", shape |-> RectS(<<3, 1>>, 10, 10, <<3, 4, 5>>)],
    [name |-> "rect435", shape |-> RectS(<<-2, 4>>, 10, 20, <<-4, 3, 5>>)],
    [name |-> "disc4",   shape |-> [k |-> "disc", c |-> <<3, 5>>, r |-> 8]],
    [name |-> "disc2",   shape |-> [k |-> "disc", c |-> <<-2, 0>>, r |-> 4]],
    [name |-> "disc10",  shape |-> [k |-> "disc", c |-> <<1, -1>>, r |-> 20]],                        \* (12,16), (16,12) ... lie ON the circle
    [name |-> "tri",     shape |-> [k |-> "poly", v |-> <<<<0, 0>>, <<8, 0>>, <<0, 8>>>>]],
    [name |-> "tri_cw",  shape |-> [k |-> "poly", v |-> <<<<0, 0>>, <<0, 8>>, <<8, 0>>>>]],
    [name |-> "lpoly",   shape |-> [k |-> "poly", v |-> <<<<0, 0>>, <<8, 0>>, <<8, 8>>, <<4, 8>>, <<4, 4>>, <<0, 4>>>>]],   \* concave
    [name |-> "grp_rr",  shape |-> [k |-> "group", ms |-> <<RectS(<<2, 2>>, 2, 2, Id), RectS(<<6, 6>>, 2, 2, Id)>>]],     \* touch at (4,4)
    [name |-> "grp_rd",  shape |-> [k |-> "group", ms |-> <<RectS(<<2, 4>>, 2, 4, Id), [k |-> "disc", c |-> <<8, 4>>, r |-> 4]>>]],
    [name |-> "grp_pd",  shape |-> [k |-> "group", ms |-> <<[k |-> "poly", v |-> <<<<0, 0>>, <<4, 0>>, <<0, 4>>>>],
                                                             [k |-> "disc", c |-> <<4, 4>>, r |-> 4]>>]]>>
ProbesOf(s) == CASE s.k = "rect" -> RectProbes(s)
                 [] s.k = "disc" -> BoxProbes(s.c[1], s.c[2], s.r \div 4, s.r \div 4)
                 [] OTHER -> BoxProbes(4, 4, 2, 2) \cup BoxProbes(4, 4, 1, 1)
(* probe class: where the probe lies relative to the DEFINING set (label of the violation signature only) *)
PrimProbeClass(s, p) ==
    CASE s.k = "rect" -> IF InRectStrict(s, p) THEN "inside" ELSE IF InRect(s, p) THEN "boundary" ELSE "outside"
      [] s.k = "poly" -> IF p \in Range(s.v) THEN "vertex" ELSE IF OnBoundary(s.v, p) THEN "boundary"
                         ELSE IF InPoly(s.v, p) THEN "inside" ELSE "outside"
      [] s.k = "disc" -> LET d2 == Len2(s.c, p)  r2 == s.r * s.r IN
                         IF 4 * d2 < r2 THEN "lt0.5r" ELSE IF 4 * d2 = r2 THEN "0.5r"
                         ELSE IF LeqFrac(<<d2, 1>>, 9801, 10000, r2) THEN "0.5r-0.99r"
                         ELSE IF LeqFrac(<<d2, 1>>, 10201, 10000, r2) THEN "band" ELSE "gt1.01r"
ProbeClass(s, p) == IF s.k # "group" THEN PrimProbeClass(s, p)
                    ELSE LET cs == {PrimProbeClass(s.ms[i], p) : i \in DOMAIN s.ms} IN
                         IF cs \cap {"inside", "lt0.5r", "0.5r"} # {} THEN "inside"
                         ELSE IF "0.5r-0.99r" \in cs THEN "disc-0.5r-0.99r"
                         ELSE IF cs \cap {"boundary", "vertex", "band"} # {} THEN "boundary" ELSE "outside"
ProbeClasses == <<"inside", "boundary", "vertex", "outside", "lt0.5r", "0.5r", "0.5r-0.99r", "band", "gt1.01r", "disc-0.5r-0.99r">>
ProbeGroups(s) == LET P == ProbesOf(s) IN
                  SelectSeq([i \in DOMAIN ProbeClasses |->
                               [cls |-> ProbeClasses[i], pts |-> SX!SetToSeq({p \in P : ProbeClass(s, p) = ProbeClasses[i]})]],
                            LAMBDA g : g.pts # <<>>)

(* obstacles for get_obstacles / map_obstacles_to_lanelets / filter_obstacles_in_network: [id, role, t0, occ] with   *)
(* occ[i] the region occupied at time step t0 + i - 1 (static: the same region at every time step)                     *)
DiscS(c, r) == [k |-> "disc", c |-> c, r |-> r]
GroupS(ms)  == [k |-> "group", ms |-> ms]
Ob(id, role, t0, occ) == [id |-> id, role |-> role, t0 |-> t0, occ |-> occ]
ObstacleTable ==
  <<Ob(31, "static", 0, <<RectS(<<1, 1>>, 1, 1, Id)>>),                                                  \* the cell [0,1]x[0,1]
    Ob(32, "dynamic", 0, <<RectS(<<-2, 3>>, 2, 1, Id), RectS(<<2, 3>>, 2, 1, Id), RectS(<<6, 3>>, 2, 1, Id)>>),
    Ob(33, "dynamic", 0, <<DiscS(<<5, -7>>, 4), DiscS(<<5, -3>>, 4), DiscS(<<5, 1>>, 4)>>),              \* approaches y = 0: 1.75 r, 0.75 r, inside
    Ob(34, "static", 0, <<[k |-> "poly", v |-> <<<<8, 0>>, <<12, 0>>, <<8, 4>>>>]>>),
    Ob(35, "setbased", 0, <<RectS(<<3, 3>>, 1, 1, Id),
                            GroupS(<<RectS(<<3, 3>>, 1, 1, Id), RectS(<<7, 5>>, 1, 1, Id)>>),
                            GroupS(<<RectS(<<5, 3>>, 1, 1, Id), DiscS(<<9, 3>>, 2)>>)>>),
    Ob(36, "dynamic", 1, <<RectS(<<3, 1>>, 1, 1, Id), RectS(<<5, 1>>, 1, 1, Id)>>),                      \* appears at time step 1
    Ob(37, "static", 0, <<DiscS(<<2, -3>>, 4)>>),                                                        \* 0.75 r below y = 0
    Ob(38, "static", 0, <<RectS(<<9, 4>>, 2, 1, <<0, 1, 1>>)>>),
    Ob(39, "setbased", 0, <<DiscS(<<1, 5>>, 2), DiscS(<<3, 5>>, 2), DiscS(<<7, 1>>, 4)>>)>>

(* one FAMILY record per family at its initial state, one ROUTE record per completed route sequence, the SHAPE table once *)
EmitFamily == PrintT(<<"CASE", ToJson([kind |-> "family", fam |-> fam, lanelets |-> Family(fam), net |-> FamNet(fam), extra |-> Extra, wedge |-> SX!SetToSeq(WedgePts(FamNet(fam))), fine |-> FineScale,
                                        points |-> PointGroups(FamNet(fam)), shapes |-> ShapeQueries(FamNet(fam)),
                                        obstacles |-> ObstacleTable, cuts |-> Cuts])>>)
EmitShapes == \A i \in DOMAIN ShapeTable :       \* (mentions a variable: a constant-level definition would be evaluated, and printed, at every start-up)
                 PrintT(<<"CASE", ToJson([kind |-> "shape", name |-> ShapeTable[i].name, shape |-> ShapeTable[i].shape,
                                          probes |-> ProbeGroups(ShapeTable[i].shape), mode |-> mode])>>)
EmitRoute  == PrintT(<<"CASE", ToJson([kind |-> "route", fam |-> fam, routes |-> hist, polys |-> AsNet(polys)])>>)
Emit == /\ mode = "new" => EmitFamily
        /\ mode = "ready" => EmitRoute
EmitHistory == PrintT(<<"CASE", ToJson([kind |-> "history", shape |-> sinit[1], steps |-> hist, final |-> scur,
                                         probes |-> ProbeGroups(scur), net |-> FamNet("mixed4")])>>)
EmitS == /\ (mode = "new" /\ fam = CHOOSE f \in Fams : TRUE) => EmitShapes
         /\ (mode = "shape" /\ sphase = 4) => EmitHistory
=================================================================================
