--------------------------- MODULE MC_StateAlgebra ---------------------------
(* Implementation-shaped model for X06: what the shipped classes / functions do (attributes =   *)
(* keys of __dict__, conversion = copy by name over the dataclass fields of the target, the     *)
(* isinstance() tests of validity.py), one action per public call.  Every action logs the event *)
(* the harness would log (`act`); TLC checks that the contract of StateAlgebra.tla accepts      *)
(* every step (Clause = "") together with the laws of the contract operators.  Deviation        *)
(* constants name shipped / conceivable behaviour that breaks the contract; with all of them    *)
(* FALSE the model is the repaired design.                                                      *)
EXTENDS StateAlgebra, Json

CONSTANTS
    Domains,                 \* subset of {"so", "dv", "tj", "sg", "mi", "vd"}
    MCClasses,               \* state classes explored by the state-object machine
    WithInterval,            \* plain Interval as orientation value (thorough)
    ExtraOn,                 \* classes on which setattr of the undeclared name "foo" is explored
    PresetOn,                \* conversion targets that are also tried with a preset attribute value
    GridMax,                 \* derived properties: directions in (-GridMax..GridMax)^2
    VdFns,                   \* predicates of validity.py enumerated by this configuration
    VdBig,                   \* the full set of interval bounds (thorough)
    DEV_ConvertKeepsExtra,   \* conversion copies every attribute of the source (also undeclared ones)
    DEV_FillOverwrites,      \* fill_with_defaults replaces set values
    DEV_FillTimeStepFloat,   \* SHIPPED: the default of time_step is the float 0.0
    DEV_HasValueDerivedRaises, \* SHIPPED: has_value of a derived property raises TypeError when a source attribute is an interval
    DEV_ComplexIsReal,       \* SHIPPED: numpy complex scalars pass is_real_number (npy.number)
    DEV_ZeroDimRaises,       \* SHIPPED: 0-d arrays make the vector / polyline checks raise TypeError
    DEV_BoolSignRaises,      \* SHIPPED: is_positive / is_negative(True) raise (numpy.sign has no bool loop)
    DEV_NonPositiveIsNegative \* SHIPPED: is_negative = "not positive" (0 and nan are negative)

VARIABLES dom, ob, aux, pr, act
vars == <<dom, ob, aux, pr, act>>
View == <<dom, ob, aux, pr>>
B(x) == IF x THEN 1 ELSE 0
SeqsUpTo(U, n) == UNION {[1..k -> U] : k \in 0..n}
A(n, v) == [n |-> n, v |-> v]

(* ---- value universes ------------------------------------------------------------------------ *)
Rect   == V("R", <<4, 2, 0, 0>>)
AInt   == V("A", <<0, 1>>)
PInt   == V("I", <<0, 1>>)
ValsOf(n) == CASE n = "time_step"   -> {NoneV, In(1)}
               [] n = "position"    -> {NoneV, Pt(1, 2), Rect}
               [] n = "orientation" -> {NoneV, Fl(1), AInt} \cup (IF WithInterval THEN {PInt} ELSE {})
               [] n = "velocity"    -> {NoneV, Fl(3)}
               [] n = "velocity_y"  -> {NoneV, Fl(4), PInt}
               [] n = "foo"         -> {Fl(5)}
               [] OTHER             -> {NoneV, Fl(2)}
CustomNames == {"time_step", "velocity", "hitch"}
SetNames(c) == IF c = "CustomState" THEN CustomNames ELSE FieldSet(c) \cup Derived(c) \cup (IF c \in ExtraOn THEN {"foo"} ELSE {})
HasNames(c) == SetNames(c) \cup {"draw", "nonexistent"}
NewKws(c)   == IF c = "CustomState"
               THEN {<<>>, <<A("time_step", In(1))>>, <<A("time_step", In(1)), A("velocity", Fl(3))>>, <<A("velocity", Fl(3))>>}
               ELSE {<<>>, <<A("time_step", In(1))>>, <<A("bogus", Fl(2))>>}
Pres(tc)    == IF tc \notin PresetOn THEN {<<>>} ELSE
               {<<>>} \cup (IF "velocity" \in FieldSet(tc) THEN {<<A("velocity", Fl(9))>>} ELSE {})
                      \cup (IF "orientation" \in FieldSet(tc) THEN {<<A("orientation", Fl(7))>>} ELSE {})

(* ---- the state object: self.__dict__ -------------------------------------------------------- *)
Live == ob.cls # ""
NamesSeq(at) == [i \in DOMAIN at |-> at[i].n]
UsedSeq(at)  == LET s == SelectSeq(at, LAMBDA x : ~IsNone(x.v)) IN [i \in DOMAIN s |-> s[i].n]
SNew(c, kw) ==
    LET okc == IF c = "CustomState" THEN kw = <<>> \/ HasA(kw, "time_step") ELSE Names(kw) \subseteq FieldSet(c)
        at1 == IF c = "CustomState" THEN kw ELSE Fresh(c, kw)
    IN /\ ~Live
       /\ ob' = IF okc THEN [cls |-> c, at |-> at1] ELSE Absent
       /\ act' = [op |-> "new", cls |-> c, kw |-> kw, res |-> IF okc THEN "ok" ELSE "exc", post |-> IF okc THEN at1 ELSE <<>>]
SSet(n, v) ==
    LET rej == n \in Derived(ob.cls)                       \* a property without setter
        at1 == IF rej THEN ob.at ELSE Upd(ob.at, n, v)
    IN /\ Live /\ ob' = [ob EXCEPT !.at = at1]
       /\ act' = [op |-> "set", n |-> n, v |-> v, res |-> IF rej THEN "exc" ELSE "ok", post |-> at1]
SAddAttr(n) ==
    LET at1 == Upd(ob.at, n, NoneV) IN                      \* setattr(self, n, None)
    /\ Live /\ ob.cls = "CustomState" /\ ob' = [ob EXCEPT !.at = at1]
    /\ act' = [op |-> "add_attr", n |-> n, res |-> "ok", post |-> at1]
SSetValue(n, v) ==
    LET okc == HasA(ob.at, n)  at1 == IF okc THEN Upd(ob.at, n, v) ELSE ob.at IN
    /\ Live /\ ob.cls = "CustomState" /\ ob' = [ob EXCEPT !.at = at1]
    /\ act' = [op |-> "set_value", n |-> n, v |-> v, res |-> IF okc THEN "ok" ELSE "exc", post |-> at1]
ImplDefault(n) == IF n = "position" THEN Pt(0, 0) ELSE IF n = "time_step" /\ ~DEV_FillTimeStepFloat THEN In(0) ELSE Fl(0)
SFill ==
    LET at1 == [i \in DOMAIN ob.at |-> IF IsNone(ob.at[i].v) \/ DEV_FillOverwrites
                                       THEN A(ob.at[i].n, ImplDefault(ob.at[i].n)) ELSE ob.at[i]] IN
    /\ Live /\ ob' = [ob EXCEPT !.at = at1]
    /\ act' = [op |-> "fill", res |-> "ok", post |-> at1]
ImplConv(at, tc, pre) ==
    LET f == Fields(tc)
        base == [i \in DOMAIN f |-> A(f[i], IF HasA(at, f[i]) THEN ValA(at, f[i]) ELSE KwVal(pre, f[i]))]
    IN IF DEV_ConvertKeepsExtra THEN base \o SelectSeq(at, LAMBDA x : x.n \notin FieldSet(tc)) ELSE base
SConv(tc, pre) ==
    LET at1 == ImplConv(ob.at, tc, pre) IN
    /\ Live /\ ob' = [cls |-> tc, at |-> at1]
    /\ act' = [op |-> "conv", tcls |-> tc, pre |-> pre, res |-> "ok", src |-> ob.at, post |-> at1]
SQuery(a) == Live /\ UNCHANGED ob /\ act' = a
ImplHas(n) == IF HasA(ob.at, n) THEN ~IsNone(ValA(ob.at, n))
              ELSE IF n \in Derived(ob.cls) THEN DerivedDefined(ob.cls, ob.at, n)
              ELSE n \in MemberNames                         \* hasattr() finds methods and properties as well
SAttrs   == SQuery([op |-> "attrs", res |-> "ok", attrs |-> NamesSeq(ob.at), used |-> UsedSeq(ob.at), post |-> ob.at])
HasRaises(n) == /\ DEV_HasValueDerivedRaises /\ ~HasA(ob.at, n) /\ n \in Derived(ob.cls)   \* hasattr() evaluates the property
                /\ DerivedDefined(ob.cls, ob.at, n) /\ ~DerivedExact(ob.cls, ob.at, n)
SHas(n)  == SQuery([op |-> "has", n |-> n, res |-> IF HasRaises(n) THEN "exc" ELSE "ok",
                    val |-> IF HasRaises(n) THEN 0 ELSE B(ImplHas(n)), post |-> ob.at])
SUnc     == SQuery([op |-> "unc", res |-> IF HasRaises("orientation") THEN "exc" ELSE "ok",   \* is_uncertain_orientation uses hasattr() too
                    up |-> B(HasA(ob.at, "position") /\ ValA(ob.at, "position").k = "R"),
                    uo |-> B(HasA(ob.at, "orientation") /\ ValA(ob.at, "orientation").k = "A"), post |-> ob.at])
SDerived(n) == /\ n \in Derived(ob.cls)
               /\ SQuery([op |-> "derived", n |-> n,
                          res |-> IF DerivedDefined(ob.cls, ob.at, n) /\ ~DerivedExact(ob.cls, ob.at, n) THEN "exc" ELSE "ok",
                          def |-> B(DerivedDefined(ob.cls, ob.at, n)), post |-> ob.at])
SStr     == SQuery([op |-> "str", res |-> "ok", hascls |-> 1, listed |-> Fields(ob.cls), post |-> ob.at])
SArray   == SQuery([op |-> "array", res |-> IF ArrayExact(ob.cls, ob.at) THEN "ok" ELSE "exc",
                    vals |-> IF ArrayExact(ob.cls, ob.at) THEN Flat(Fresh(ob.cls, ob.at), 1) ELSE <<>>, post |-> ob.at])
SNext == /\ dom = "so" /\ UNCHANGED <<dom, aux, pr>>
         /\ \/ \E c \in MCClasses : \E kw \in NewKws(c) : SNew(c, kw)
            \/ /\ Live
               /\ \/ \E n \in SetNames(ob.cls) : \E v \in ValsOf(n) : SSet(n, v) \/ SSetValue(n, v)
                  \/ \E n \in CustomNames : SAddAttr(n)
                  \/ SFill
                  \/ \E tc \in MCClasses \ {"CustomState"} : \E pre \in Pres(tc) : SConv(tc, pre)
                  \/ SAttrs \/ SUnc \/ SStr \/ SArray
                  \/ \E n \in HasNames(ob.cls) : SHas(n)
                  \/ \E n \in Derived(ob.cls) : SDerived(n)

(* ---- SignalState (__slots__) and MetaInformationState (four private dictionaries) ------------ *)
Bv(b)    == V("b", <<b>>)
Dict(i)  == V("D", <<i>>)
NoDict   == V("?", <<>>)
GNames   == {"horn", "braking_lights", "time_step", "foo"}
GVals(n) == IF n = "time_step" THEN {In(1)} ELSE {Bv(0), Bv(1)}
GKws     == {<<>>, <<A("horn", Bv(1))>>, <<A("horn", Bv(0)), A("time_step", In(1))>>, <<A("foo", Bv(1))>>,
             <<A("horn", Bv(1)), A("foo", Bv(1))>>}
GLive    == aux.cls = "SignalState"
GNew(kw) == \* __init__ assigns the keywords one after the other: the object does not exist if one of them is no slot
    LET okc == Names(kw) \subseteq SignalSlots IN
    /\ aux.cls = "" /\ aux' = IF okc THEN [cls |-> "SignalState", at |-> kw] ELSE aux
    /\ act' = [op |-> "g_new", kw |-> kw, res |-> IF okc THEN "ok" ELSE "exc", post |-> IF okc THEN kw ELSE <<>>]
GSet(n, v) ==
    LET okc == n \in SignalSlots  at1 == IF okc THEN Upd(aux.at, n, v) ELSE aux.at IN
    /\ GLive /\ aux' = [aux EXCEPT !.at = at1]
    /\ act' = [op |-> "g_set", n |-> n, v |-> v, res |-> IF okc THEN "ok" ELSE "exc", post |-> at1]
GGet(n) == /\ GLive /\ UNCHANGED aux
           /\ act' = [op |-> "g_get", n |-> n, res |-> IF HasA(aux.at, n) THEN "ok" ELSE "exc",
                      v |-> IF HasA(aux.at, n) THEN ValA(aux.at, n) ELSE NoneV, post |-> aux.at]
GNext == /\ dom = "sg" /\ UNCHANGED <<dom, ob, pr>>
         /\ \/ \E kw \in GKws : GNew(kw)
            \/ \E n \in GNames : (\E v \in GVals(n) : GSet(n, v)) \/ GGet(n)
MSeq     == <<"meta_data_str", "meta_data_int", "meta_data_float", "meta_data_bool">>
MKws     == {<<>>, <<A("meta_data_str", Dict(1))>>, <<A("meta_data_int", Dict(1)), A("meta_data_bool", Dict(2))>>,
             <<A("meta_data_float", NoDict)>>}
MLive    == aux.cls = "MetaInformationState"
MNew(kw) == LET at1 == [i \in DOMAIN MSeq |-> A(MSeq[i], KwVal(kw, MSeq[i]))] IN
            /\ aux.cls = "" /\ aux' = [cls |-> "MetaInformationState", at |-> at1]
            /\ act' = [op |-> "m_new", kw |-> kw, res |-> "ok", post |-> at1]
MSet(n, v) == LET okc == v.k = "D"  at1 == IF okc THEN Upd(aux.at, n, v) ELSE aux.at IN
              /\ MLive /\ aux' = [aux EXCEPT !.at = at1]
              /\ act' = [op |-> "m_set", n |-> n, v |-> v, res |-> IF okc THEN "ok" ELSE "exc", post |-> at1]
MNext == /\ dom = "mi" /\ UNCHANGED <<dom, ob, pr>>
         /\ \/ \E kw \in MKws : MNew(kw)
            \/ \E n \in MetaSlots : \E v \in {Dict(3), NoDict, NoneV} : MSet(n, v)

(* ---- value-like domains: one initial state per case ------------------------------------------- *)
K65 == 65
Dirs == {d \in (-GridMax..GridMax) \X (-GridMax..GridMax) : OnGrid(K65, d[1], d[2])}
DvCases == {[kind |-> "pm", x |-> d[1], y |-> d[2], v |-> 0] : d \in Dirs \cup {<<0, 0>>}}
           \cup {[kind |-> "epm", x |-> d[1], y |-> d[2], v |-> v] : d \in Dirs, v \in {-2, 0, 1, 5}}
DvEvent(c) == IF c.kind = "pm"
              THEN [op |-> "d_pm", vx |-> c.x, vy |-> c.y, K |-> K65, res |-> "ok", exact |-> 1, valid |-> 1,
                    ck |-> IF c.x = 0 /\ c.y = 0 THEN K65 ELSE CosK(K65, c.x, c.y),
                    sk |-> IF c.x = 0 /\ c.y = 0 THEN 0 ELSE SinK(K65, c.x, c.y)]
              ELSE [op |-> "d_epm", v |-> c.v, dx |-> c.x, dy |-> c.y, K |-> K65, res |-> "ok", exact |-> 1,
                    vyK |-> c.v * SinK(K65, c.x, c.y)]

(* trajectory acceptance: descriptors [cls, ts, used] *)
TjCls   == {"KSState", "CustomState", "SignalState"}
TjTs    == {In(0), In(1), In(-1), Fl(0), NoneV, PInt}
TjUsed  == {<<"position">>, <<"position", "velocity">>}
Descs   == [cls : TjCls, ts : TjTs, used : TjUsed]
GoodDescs == {d \in Descs : d.cls # "SignalState" /\ d.ts \in {In(0), In(1)}}
TjCases == {[kind |-> "new", t0 |-> t, ds |-> ds, d |-> [cls |-> "KSState", ts |-> In(0), used |-> <<>>]] :
                t \in {0, 1}, ds \in SeqsUpTo(Descs, 2)}
           \cup {[kind |-> "append", t0 |-> g.ts.a[1], ds |-> <<g>>, d |-> d] : g \in GoodDescs, d \in Descs}
ImplNat(d) == d.ts.k = "i" /\ d.ts.a[1] >= 0                 \* is_natural_number(state.time_step)
TjEvent(c) ==
    IF c.kind = "new"
    THEN [op |-> "tj_new", t0 |-> c.t0, ds |-> c.ds,
          res |-> IF /\ c.ds # <<>> /\ \A i \in DOMAIN c.ds : c.ds[i].cls # "SignalState" /\ ImplNat(c.ds[i])
                     /\ \A i \in DOMAIN c.ds : UsedOf(c.ds[i]) = UsedOf(c.ds[1])
                     /\ c.ds[1].ts.a[1] = c.t0 THEN "ok" ELSE "exc"]
    ELSE [op |-> "tj_append", ds |-> c.ds, d |-> c.d,
          res |-> IF /\ c.d.cls # "SignalState" /\ UsedOf(c.d) = UsedOf(c.ds[1])
                     /\ c.d.ts.k \in {"i", "f"} /\ c.d.ts.a[1] > c.ds[1].ts.a[1] THEN "ok" ELSE "exc"]

(* validity.py: the token universe *)
S(k, g, n, u) == [t |-> "s", k |-> k, g |-> g, n |-> n, u |-> u]
QInts   == {-28, -4, 0, 4, 24, 28}                            \* -7, -1, 0, 1, 6, 7
QAll    == QInts \cup {-26, -25, -1, 1, 25, 26}               \* +-6.5, +-6.25 (2pi = 6.283..), +-0.25
Scalars == {S(k, 0, n, 0) : k \in {"int", "np.int64", "np.int32"}, n \in QInts}
           \cup {S("np.uint8", 0, n, 0) : n \in {0, 4, 28}}
           \cup {S(k, 0, n, 0) : k \in {"float", "np.float64", "np.float32"}, n \in QAll}
           \cup {S(k, 1, n, u) : k \in {"float", "np.float64"}, n \in {-8, 8}, u \in {-1, 0, 1}}
           \cup {S("float", 1, 4, 0), S("float", 1, -4, 0)}
           \cup {S(k, 2, n, 0) : k \in {"float", "np.float64", "np.float32"}, n \in {-1, 0, 1}}
           \cup {S(k, 0, n, 0) : k \in {"bool", "np.bool_"}, n \in {0, 4}}
           \cup {S("Fraction", 0, n, 0) : n \in {-2, 0, 2, 4}}
           \cup {S(k, 0, n, 0) : k \in ComplexKinds, n \in {-4, 4}}    \* n/4 + 1j
Others  == {[t |-> "x", k |-> k] : k \in {"str", "None", "dict"}}
El      == {<<0, 0, 0>>, <<0, 4, 0>>, <<0, -28, 0>>, <<1, 8, 0>>, <<1, 8, 1>>, <<2, 0, 0>>}
ElLists == {<<>>} \cup {<<a>> : a \in El} \cup {<<a, b>> : a \in {<<0, 0, 0>>, <<1, 8, 0>>}, b \in El}
           \cup {<<<<0, 0, 0>>, <<0, 4, 0>>, <<1, -8, 0>>>>, <<<<0, 0, 0>>, <<0, 4, 0>>, <<1, -8, -1>>>>}
IntEl(l) == \A i \in DOMAIN l : l[i][1] = 0 /\ l[i][2] % 4 = 0
Vectors == {[t |-> "v", k |-> k, d |-> "f8", e |-> l] : k \in {"array", "list", "tuple"}, l \in ElLists}
           \cup {[t |-> "v", k |-> "array", d |-> d, e |-> l] : d \in {"i8", "b1", "O", "U"}, l \in {l \in ElLists : IntEl(l)}}
Mats    == {[t |-> "m", k |-> k, d |-> "f8", r |-> r, c |-> c, nan |-> 0] : k \in {"array", "list"}, r \in 0..3, c \in 1..4}
           \cup {[t |-> "m", k |-> "array", d |-> d, r |-> 2, c |-> c, nan |-> 0] : d \in {"i8", "b1", "O", "U"}, c \in {2, 3}}
           \cup {[t |-> "m", k |-> "array", d |-> "f8", r |-> 2, c |-> 2, nan |-> 1]}
Nds     == {[t |-> "nd", dim |-> 0], [t |-> "nd", dim |-> 3]}
Tokens  == Scalars \cup Others \cup Vectors \cup Mats \cup Nds
Bounds  == {NoneTok, S("float", 0, -4, 0), S("int", 0, 0, 0), S("float", 1, 8, 0), [t |-> "x", k |-> "str"], S("float", 2, 0, 0)}
            \cup (IF VdBig THEN {S("float", 0, 4, 0), S("float", 1, -8, 0), S("np.float64", 0, 28, 0), S("bool", 0, 4, 0)} ELSE {})
Lens    == {-1, 0, 1, 2, 3, -2}
NoArg   == [lo |-> NoneTok, hi |-> NoneTok, len |-> -1]
VdCases == {[fn |-> f, x |-> x, lo |-> NoneTok, hi |-> NoneTok, len |-> -1] : f \in VdFns \cap Unary, x \in Tokens}
           \cup {[fn |-> f, x |-> x, lo |-> NoneTok, hi |-> NoneTok, len |-> n] :
                   f \in VdFns \cap {"is_real_number_vector", "is_list_of_numbers"}, x \in Tokens, n \in {-1, 0, 1, 2, 3}}
           \cup {[fn |-> f, x |-> x, lo |-> NoneTok, hi |-> NoneTok, len |-> n] :
                   f \in VdFns \cap {"is_valid_polyline", "is_valid_array_of_vertices", "is_valid_list_of_vertices"},
                   x \in Mats \cup Nds \cup Others \cup {v \in Vectors : Len(v.e) <= 1 /\ v.d = "f8"} \cup {S("float", 0, 4, 0)}, n \in Lens}
           \cup {[fn |-> f, x |-> x, lo |-> lo, hi |-> hi, len |-> -1] :
                   f \in VdFns \cap {"is_in_interval", "is_valid_velocity", "is_valid_acceleration"}, x \in Tokens, lo \in Bounds, hi \in Bounds}

(* the isinstance() logic of validity.py *)
NumInst(x)  == x.t = "s" /\ (x.k \in RealKinds \cup {"bool"} \/ (DEV_ComplexIsReal /\ x.k = "np.complex128"))
IntInst(x)  == x.t = "s" /\ x.k \in IntKinds \cup {"bool"}
Val(x)      == KeyOf(x)                                      \* complex tokens are n/4 + 1j: numpy orders them by the real part first
GE(a, b)    == \* npy.greater_equal(a, b) on scalars incl. nan / inf
    IF (a.g = 2 /\ a.n = 0) \/ (b.g = 2 /\ b.n = 0) THEN FALSE
    ELSE IF a.g = 2 THEN a.n = 1 \/ (b.g = 2 /\ b.n = -1)
    ELSE IF b.g = 2 THEN b.n = -1
    ELSE Val(a) >= Val(b)
Elem(d, el) == [t |-> "s", k |-> IF d = "f8" THEN "np.float64" ELSE IF d = "i8" THEN "np.int64" ELSE IF d = "b1" THEN "np.bool_"
                                 ELSE IF d = "O" THEN "int" ELSE "np.str_", g |-> el[1], n |-> el[2], u |-> el[3]]
ImplVec(x, len) == \* is_real_number_vector
    IF x.t = "nd" /\ x.dim = 0 THEN (IF DEV_ZeroDimRaises THEN "X" ELSE "F")
    ELSE IF x.t = "nd" THEN "F"
    ELSE IF x.t = "m" THEN (IF x.k # "array" THEN "F" ELSE IF x.r = 0 THEN B3(LenOk(0, len)) ELSE "F")     \* rows are no numbers
    ELSE IF x.t # "v" \/ x.k # "array" THEN "F"
    ELSE B3((\A i \in DOMAIN x.e : NumInst(Elem(x.d, x.e[i]))) /\ LenOk(Len(x.e), len))
Sign(x)     == IF x.g = 2 THEN (IF x.n = 0 THEN 0 ELSE x.n) ELSE IF Val(x) > 0 THEN 1 ELSE IF Val(x) < 0 THEN -1 ELSE 0
ImplSign(x, s) ==
    IF ~NumInst(x) THEN "F"
    ELSE IF x.k = "bool" THEN (IF DEV_BoolSignRaises THEN "X" ELSE B3(s = 1 /\ x.n # 0))
    ELSE IF s = 1 THEN B3(Sign(x) > 0)
    ELSE IF DEV_NonPositiveIsNegative THEN B3(~(Sign(x) > 0)) ELSE B3(Sign(x) < 0)
ImplNatural(x) == IntInst(x) /\ Val(x) >= 0
ImplInterval(x, lo, hi) ==
    IF (~IsNoneTok(lo) /\ ~NumInst(lo)) \/ (~IsNoneTok(hi) /\ ~NumInst(hi)) THEN "A"
    ELSE IF NumInst(x) THEN B3((IsNoneTok(lo) \/ GE(x, lo)) /\ (IsNoneTok(hi) \/ GE(hi, x)))
    ELSE LET v == ImplVec(x, -1) IN
         IF v = "X" THEN "X"
         ELSE IF v = "T" /\ x.t = "v"
         THEN B3(\A i \in DOMAIN x.e : LET el == Elem(x.d, x.e[i]) IN (IsNoneTok(lo) \/ GE(el, lo)) /\ (IsNoneTok(hi) \/ GE(hi, el)))
         ELSE IF v = "T" THEN "T"                               \* an empty (0, c) matrix
         ELSE "F"
ImplPoints(x, minrows, len, kind) ==
    IF len # -1 /\ ~(len > 0) THEN "A"
    ELSE IF x.t = "nd" /\ x.dim = 0 THEN (IF kind = "array" /\ DEV_ZeroDimRaises THEN "X" ELSE "F")
    ELSE IF x.t = "nd" THEN "F"
    ELSE IF x.t = "v" THEN "F"
    ELSE IF x.t # "m" \/ x.k # kind THEN "F"
    ELSE B3(x.r >= minrows /\ x.c \in {2, 3} /\ x.d \in {"f8", "i8", "O"} /\ LenOk(x.r, len))
ImplRes(c) ==
    LET x == c.x IN
    CASE c.fn = "is_real_number"    -> B3(NumInst(x))
      [] c.fn = "is_integer_number" -> B3(IntInst(x))
      [] c.fn = "is_natural_number" -> B3(ImplNatural(x))
      [] c.fn = "is_positive"       -> ImplSign(x, 1)
      [] c.fn = "is_negative"       -> ImplSign(x, -1)
      [] c.fn = "is_valid_length"   -> B3(ImplNatural(x) /\ Val(x) > 0)
      [] c.fn = "is_valid_orientation" -> ImplInterval(x, TwoPi(-1), TwoPi(1))
      [] c.fn = "is_real_number_vector" -> ImplVec(x, c.len)
      [] c.fn = "is_list_of_numbers" -> IF x.t = "v" /\ x.k = "list" THEN ImplVec([x EXCEPT !.k = "array"], c.len)
                                        ELSE "F"
      [] c.fn = "is_in_interval"    -> ImplInterval(x, c.lo, c.hi)
      [] c.fn \in {"is_valid_velocity", "is_valid_acceleration"} ->
             IF IsNoneTok(c.lo) /\ IsNoneTok(c.hi)
             THEN (IF NumInst(x) THEN "T" ELSE ImplVec(x, -1)) ELSE ImplInterval(x, c.lo, c.hi)
      [] c.fn = "is_valid_polyline" -> ImplPoints(x, 2, c.len, "array")
      [] c.fn = "is_valid_array_of_vertices" -> ImplPoints(x, 1, c.len, "array")
      [] c.fn = "is_valid_list_of_vertices"  -> ImplPoints(x, 1, c.len, "list")
VdEvent(c) == [op |-> "v", fn |-> c.fn, x |-> c.x, lo |-> c.lo, hi |-> c.hi, len |-> c.len, res |-> ImplRes(c)]

NoCase == [kind |-> "none"]
Init == /\ dom \in Domains
        /\ ob = Absent /\ aux = Absent
        /\ pr \in (IF dom = "dv" THEN DvCases ELSE IF dom = "tj" THEN TjCases ELSE IF dom = "vd" THEN VdCases ELSE {NoCase})
        /\ act = [op |-> "init"]
Next == SNext \/ GNext \/ MNext
Spec == Init /\ [][Next]_vars

(* ---- the contract, as invariants and action properties of the implementation model ------------ *)
PropStateRefines  == [][dom = "so" => (SClause(ob, act') = "" /\ ob' = SPost(ob, act'))]_vars
PropSignalRefines == [][dom = "sg" => (GClause(aux.at, act') = "" /\ aux'.at = act'.post)]_vars
PropMetaRefines   == [][dom = "mi" => (MClause(aux.at, act') = "" /\ aux'.at = act'.post)]_vars
PropQueriesPure   == [][(dom = "so" /\ act'.op \in SQueries) => ob' = ob]_vars
PropConvertPure   == [][(dom = "so" /\ act'.op = "conv") => SameAttrs(act'.src, ob.at)]_vars
InvNoDupNames     == NoDup([i \in DOMAIN ob.at |-> ob.at[i].n])
InvDeclared       == (dom = "so" /\ ob.cls \in DataClasses) => FieldSet(ob.cls) \subseteq Names(ob.at)    \* declared attributes never disappear
InvStateLaws      == (dom = "so" /\ Live) =>
                        /\ LawFillIdempotent(ob.at) /\ LawFillKeeps(ob.at) /\ LawUsedSubset(ob.at) /\ LawHasValueUsed(ob.cls, ob.at)
                        /\ \A tc \in MCClasses \ {"CustomState"} :
                              /\ LawConvIdempotent(ob.at, tc) /\ LawConvNames(ob.at, tc) /\ LawConvDrops(ob.at, tc)
                              /\ LawConvRoundTrip(ob.cls, ob.at, tc)
                              /\ \A t2 \in MCClasses \ {"CustomState"} : LawConvCompose(ob.at, tc, t2)
InvDerived        == dom = "dv" => (DClause(DvEvent(pr)) = "" /\ LawPythUnit(K65, pr.x, pr.y))
InvTrajectory     == dom = "tj" => TClause(TjEvent(pr)) = ""
InvValidityRefines == dom = "vd" => VClause(VdEvent(pr)) = ""
InvValidityLaws   == dom = "vd" =>
                        /\ LawNaturalIsReal(pr.x) /\ LawSignExclusive(pr.x) /\ LawLengthIsPositive(pr.x)
                        /\ LawOrientationBound(pr.x)
                        /\ (pr.x.t = "m" => (LawPolylineIsVertices(pr.x, pr.len) /\ LawLengthRefines(pr.x, pr.len)))
                        /\ \A lo2 \in {S("float", 0, -28, 0)}, hi2 \in {S("float", 0, 28, 0)} :
                               (pr.lo.t = "s" /\ pr.hi.t = "s") => LawIntervalMonotone(pr.x, pr.lo, pr.hi, lo2, hi2)

(* ---- generation (GEN configurations, -workers 1) ------------------------------------------------ *)
StKey == [d |-> dom, cls |-> IF dom = "so" THEN ob.cls ELSE aux.cls, at |-> IF dom = "so" THEN ob.at ELSE aux.at]
EmitEdge == PrintT(<<"EDGE", ToJson([from |-> StKey, act |-> act', to |-> StKey'])>>)
EmitCase == (dom \in {"dv", "tj", "vd"}) => PrintT(<<"CASE", ToJson([dom |-> dom, c |-> pr])>>)
=================================================================================
