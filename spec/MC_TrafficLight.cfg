SPECIFICATION Spec
CONSTANTS
  MaxElems = 3
  MaxDur = 3
  MaxOff = 3
  Periods = 3
  Colors = {"red", "green", "yellow"}
INVARIANT LawPartition
INVARIANT LawCovers
INVARIANT LawPeriodic
INVARIANT LawInOrder
INVARIANT LawBeforeOffset
PROPERTY StepLaw
