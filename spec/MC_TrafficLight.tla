---------------------------- MODULE MC_TrafficLight ----------------------------
(* Model for C17: one state per (cycle, offset, t); Tick walks through time.       *)
EXTENDS TrafficLight

(* ---- model: one state per (cycle, offset, t); Tick walks through time ---- *)
VARIABLES cyc, off, t
vars == <<cyc, off, t>>
Horizon(c, o) == o + Periods * Total(c)
Init == cyc \in Cycles /\ off \in 0..MaxOff /\ t = 0
Tick == t < Horizon(cyc, off) /\ t' = t + 1 /\ UNCHANGED <<cyc, off>>
Next == Tick
Spec == Init /\ [][Next]_vars

LawPartition == Partition(cyc)
LawCovers    == Covers(cyc)
LawPeriodic  == Periodic(cyc, off, t)
LawInOrder   == InOrder(cyc, off)
LawBeforeOffset == t < off => StateAt(cyc, off, t) = StateAt(cyc, off, t + Total(cyc))
(* element changes only at window boundaries: stepping time by one either stays in the element or moves to the next (cyclically) *)
StepLaw == [][LET i == ElemAt(cyc, off, t) j == ElemAt(cyc, off, t') IN j = i \/ j = (i % Len(cyc)) + 1]_vars

(* ---- generation: one case per cycle x offset, with the query times of the whole horizon ---- *)
Emit == t = 0 => PrintT(<<"CASE", ToJson([cyc |-> cyc, off |-> off, horizon |-> Horizon(cyc, off)])>>)
=================================================================================
