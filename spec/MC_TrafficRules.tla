--------------------------- MODULE MC_TrafficRules ---------------------------
(* Implementation-shaped model for X03: what the shipped classes do (the interpreter's country    *)
(* if-chain and its per-call memo, the class-level default list of TrafficSignElement, ==          *)
(* through a dict keyed by element / incoming id, the dict comprehension of map_incoming_lanelets, *)
(* the obstacle loop of GroundTruthPredictor.predict), one action per public call.  Every action   *)
(* logs the event the harness would log (`act`); TLC checks that the contract of TrafficRules.tla  *)
(* accepts every step together with the laws of the contract operators.  Deviation constants name  *)
(* shipped / conceivable behaviour that breaks the contract; all FALSE = the repaired design.      *)
EXTENDS TrafficRules, Json

CONSTANTS
    Domains,                 \* subset of {"tsi", "tsv", "el", "sg", "eq", "x", "p"}
    NL, NS,                  \* tsi / tsv: lanelets 1..NL (NL+1 = a lanelet the network does not have), sign ids 1..NS
    GCountry, GFams, GVals, GMaxEls,     \* tsi (history): interpreter country, element universe of the sign contents
    VCountries, VFams, VVals, VMaxEls,   \* tsv (value-like): countries x two signs with contents over this universe
    EVals, EMaxLen,          \* el: values appended / set, bound on the list length
    QFams, QVals, QMaxLen,   \* eq: element / incoming lists up to QMaxLen
    XIds, XLSets, XDirs, XMaxIncs, XLo,  \* x: id values (negative = invalid), incoming lanelet sets, successor directions
    PTMax, PMaxObs,          \* p: time steps 1..PTMax, up to PMaxObs dynamic obstacles
    DEV_CountryFallback,     \* SHIPPED: countries outside the if-chain are interpreted with the Zamunda enum
    DEV_StaleCache,          \* SHIPPED: lru_cache on speed_limit / required_speed survives network edits
    DEV_SharedDefault,       \* SHIPPED: TrafficSignElement(additional_values = []) - one list for all default elements
    DEV_EqDictCollapse,      \* SHIPPED: TrafficSign / Intersection == through a dict keyed by element / incoming id
    DEV_MapNoneCrash,        \* SHIPPED: map_incoming_lanelets iterates incoming_lanelets = None (the constructor default)
    DEV_PredictCrash,        \* SHIPPED: predict dereferences prediction.trajectory / state_list[0] of every obstacle
    DEV_SetterUnchecked,     \* conceivable: an id setter without the natural-number check
    DEV_StaleOccupancy       \* conceivable: the trajectory setter keeps the cached occupancy set

(* constant values the cfg syntax cannot write (negative numbers) *)
V12b   == {1, 2, -1}
V120b  == {1, 2, 0, -1}
XIdsM  == {-1, 1, 2}

VARIABLES dom, tn, cache, vs, el, sa, qc, xs, ps, act
vars == <<dom, tn, cache, vs, el, sa, qc, xs, ps, act>>
View == <<dom, tn, cache, vs, el, sa, qc, xs, ps>>

SeqsUpTo(U, n) == UNION {[1..k -> U] : k \in 0..n}
IntSeq(S)      == SelectSeq([i \in 1..12 |-> i - 2], LAMBDA x : x \in S)      \* a set of ints in -1..10 as a sorted list
Z              == [z |-> 0]                                                     \* "no arguments"

(* ======================================================================================== *)
(* tsi: a network under edit and the interpreter created when it was built                  *)
(* ======================================================================================== *)
ElU(F, V) == {e \in F \X {"max", "min", "other"} \X V : ValidEl(e) /\ (e[2] = "other" => e[3] = 1)}
GContents == SeqsUpTo(ElU(GFams, GVals), GMaxEls)
AtSets    == (SUBSET (1..NL)) \ {{}}
NoSlot    == [on |-> 0, els |-> <<>>, at |-> [l \in 1..NL |-> 0]]
TnInit    == [live |-> 0, c |-> GCountry, slot |-> [i \in 1..NS |-> NoSlot]]
NetOf(t)  == [lls |-> IF t.live = 1 THEN 1..NL ELSE {},
              signs |-> {<<i, t.slot[i].els>> : i \in {j \in 1..NS : t.slot[j].on = 1}},
              refs |-> {p \in (1..NL) \X (1..NS) : t.slot[p[2]].on = 1 /\ t.slot[p[2]].at[p[1]] = 1}]
SignsSeq(t) == SelectSeq([i \in 1..NS |-> <<i, t.slot[i].els>>], LAMBDA p : t.slot[p[1]].on = 1)
RefPairs    == [k \in 1..(NL * NS) |-> <<((k - 1) \div NS) + 1, ((k - 1) % NS) + 1>>]
RefsSeq(t)  == SelectSeq(RefPairs, LAMBDA p : t.slot[p[2]].on = 1 /\ t.slot[p[2]].at[p[1]] = 1)
LlsSeq      == [l \in 1..NL |-> l]
Snap(t)     == [lls |-> IF t.live = 1 THEN LlsSeq ELSE <<>>, signs |-> SignsSeq(t), refs |-> RefsSeq(t)]

(* the interpreter: _relevant_traffic_sign_ids + the two loops *)
ChainCountries == {"SPAIN", "GERMANY", "ZAMUNDA", "USA", "CHINA", "RUSSIA"}
ImplFam(c) == IF DEV_CountryFallback /\ c \notin ChainCountries THEN DefaultFam ELSE OwnFam(c)
ImplQuery(c, N, S, kind) ==
    LET f == ImplFam(c) IN
    IF ~HasKind(f, kind) THEN 0                                   \* `if not hasattr(self.traffic_sign_ids, ...)`
    ELSE IF ~(S \subseteq N.lls) THEN -1                          \* find_lanelet_by_id -> None
    ELSE LET E == Rel(N, S, kind, {f}) IN
         IF \E e \in E : e[3] < 1 THEN -1 ELSE Pick(kind, {e[3] : e \in E})
Cached(kind, S) == {x \in cache : x[1] = kind /\ x[2] = S}
QSeqs == {q \in SeqsUpTo(1..(NL + 1), 2) : /\ \A i \in 1..(Len(q) - 1) : q[i] < q[i + 1]
                                           /\ (\E i \in DOMAIN q : q[i] = NL + 1) => q = <<1, NL + 1>>}

INew == /\ tn.live = 0 /\ tn' = [tn EXCEPT !.live = 1] /\ cache' = {}
        /\ act' = [op |-> "i_new", a |-> [c |-> tn.c, lls |-> LlsSeq], res |-> "ok"] @@ Snap(tn')
IAdd(i, els, at) ==
    LET dup == tn.slot[i].on = 1 IN
    /\ tn.live = 1
    /\ tn' = IF dup THEN tn ELSE [tn EXCEPT !.slot[i] = [on |-> 1, els |-> els, at |-> [l \in 1..NL |-> B(l \in at)]]]
    /\ UNCHANGED cache
    /\ act' = [op |-> "i_add", a |-> [sid |-> i, els |-> els, at |-> IntSeq(at)], res |-> "ok", ret |-> B(~dup)] @@ Snap(tn')
IRm(i) == /\ tn.live = 1 /\ tn' = [tn EXCEPT !.slot[i] = NoSlot] /\ UNCHANGED cache
          /\ act' = [op |-> "i_rm", a |-> [sid |-> i], res |-> "ok"] @@ Snap(tn')
ISetEls(i, els) == /\ tn.live = 1 /\ tn.slot[i].on = 1 /\ tn' = [tn EXCEPT !.slot[i].els = els] /\ UNCHANGED cache
                   /\ act' = [op |-> "i_setels", a |-> [sid |-> i, els |-> els], res |-> "ok"] @@ Snap(tn')
IQuery(op, q) ==
    LET kind  == KindOf(op)
        S     == Range(q)
        fresh == ImplQuery(tn.c, NetOf(tn), S, kind)
        hit   == Cached(kind, S)
        res   == IF DEV_StaleCache /\ hit # {} THEN (CHOOSE x \in hit : TRUE)[3] ELSE fresh
    IN /\ tn.live = 1 /\ UNCHANGED tn
       /\ cache' = IF DEV_StaleCache /\ hit = {} /\ fresh # -1 THEN cache \cup {<<kind, S, fresh>>} ELSE cache
       /\ act' = [op |-> op, a |-> [S |-> q], res |-> res, fres |-> fresh] @@ Snap(tn)
INext == /\ dom = "tsi" /\ UNCHANGED <<dom, vs, el, sa, qc, xs, ps>>
         /\ \/ INew
            \/ \E i \in 1..NS : \E at \in AtSets :
                  IF tn.slot[i].on = 1 THEN IAdd(i, <<>>, at) ELSE \E els \in GContents : IAdd(i, els, at)
            \/ \E i \in 1..NS : IRm(i)
            \/ \E i \in 1..NS : \E els \in GContents : ISetEls(i, els)
            \/ \E q \in QSeqs : IQuery("i_speed", q) \/ IQuery("i_req", q)

(* tsv: every (country, two signs) - sign 1 referenced by lanelet 1, sign 2 by lanelets 1 and 2 *)
VNet(v) == [lls |-> 1..NL, signs |-> {<<1, v.e1>>, <<2, v.e2>>},
            refs |-> {<<1, 1>>, <<2, 2>>} \cup (IF v.both = 1 THEN {<<1, 2>>} ELSE {})]
(* both = 1 throughout: {1} sees both signs, {2} only sign 2, {1, 2} the union; sign 1 alone: e2 = <<>>.        *)
(* Sign 1 carries up to VMaxEls (<= 2) elements, as unordered pairs over a fixed enumeration of the universe.  *)
SX == INSTANCE SequencesExt
VElSeq == SX!SetToSeq(ElU(VFams, VVals))
VE1 == {<<>>} \cup {<<VElSeq[i]>> : i \in DOMAIN VElSeq}
       \cup (IF VMaxEls >= 2 THEN {<<VElSeq[p[1]], VElSeq[p[2]]>> : p \in {p \in (DOMAIN VElSeq) \X (DOMAIN VElSeq) : p[1] <= p[2]}}
             ELSE {})
VStates == [c : VCountries, e1 : VE1, e2 : SeqsUpTo({e \in ElU(VFams, VVals) : e[2] # "other"}, 1), both : {1}]

(* ======================================================================================== *)
(* el: two TrafficSignElement objects; al[k] = 1: element k still holds the list it got by default *)
(* ======================================================================================== *)
ElInit == [live |-> <<0, 0>>, vals |-> <<<<>>, <<>>>>, al |-> <<0, 0>>, dflt |-> <<>>]
ElVals == SeqsUpTo(EVals, 2)
ElEvent(op, a, e1) == [op |-> op, a |-> a, res |-> "ok", post |-> e1.vals]
(* dflt: the list object of the default argument (shipped: one per class, handed to every default element) *)
ENew(k, how, vals) ==
    LET v  == IF how = "default" THEN (IF DEV_SharedDefault THEN el.dflt ELSE <<>>) ELSE vals
        e1 == [el EXCEPT !.live[k] = 1, !.vals[k] = v, !.al[k] = B(how = "default")]
    IN /\ (how = "default" => vals = <<>>)
       /\ el' = e1 /\ act' = ElEvent("e_new", [k |-> k, how |-> how, vals |-> vals], e1)
EAppend(k, v) ==
    LET nv == Append(el.vals[k], v)
        sh == DEV_SharedDefault /\ el.al[k] = 1
        e1 == [el EXCEPT !.vals = [j \in 1..2 |-> IF j = k \/ (sh /\ el.al[j] = 1 /\ el.live[j] = 1) THEN nv ELSE @[j]],
                         !.dflt = IF sh THEN nv ELSE @]
    IN /\ el.live[k] = 1 /\ Len(el.vals[k]) < EMaxLen
       /\ el' = e1 /\ act' = ElEvent("e_append", [k |-> k, v |-> v], e1)
ESetVals(k, vals) ==
    LET e1 == [el EXCEPT !.vals[k] = vals, !.al[k] = 0] IN
    /\ el.live[k] = 1 /\ el' = e1 /\ act' = ElEvent("e_setvals", [k |-> k, vals |-> vals], e1)
ENext == /\ dom = "el" /\ UNCHANGED <<dom, tn, cache, vs, sa, qc, xs, ps>>
         /\ \E k \in 1..2 : \/ ENew(k, "default", <<>>)
                            \/ \E vals \in ElVals : ENew(k, "explicit", vals) \/ ESetVals(k, vals)
                            \/ \E v \in EVals : EAppend(k, v)

(* ======================================================================================== *)
(* sg: attributes of one TrafficSign                                                         *)
(* ======================================================================================== *)
SaInit == [live |-> 0, id |-> 0, fo |-> {}, fon |-> 0, virt |-> 0, nel |-> 0]
FoArgs == {<<{}, 1>>, <<{}, 0>>, <<{1}, 0>>, <<{1, 2}, 0>>}          \* <<set, passed as None>>
SaEvent(op, a, s1) == [op |-> op, a |-> a, res |-> "ok", pid |-> s1.id, pfo |-> IntSeq(s1.fo), pfon |-> s1.fon,
                       pvirt |-> s1.virt, pnel |-> s1.nel]
GNew(id, f, virt, nel) ==
    LET s1 == [live |-> 1, id |-> id, fo |-> f[1], fon |-> 0, virt |-> IF virt = -1 THEN 0 ELSE virt, nel |-> nel] IN
    /\ sa.live = 0 /\ sa' = s1
    /\ act' = SaEvent("g_new", [id |-> id, fo |-> IntSeq(f[1]), fon |-> f[2], virt |-> virt, nel |-> nel], s1)
GSet(field, v, f) ==
    LET s1 == CASE field = "id" -> [sa EXCEPT !.id = v] [] field = "virt" -> [sa EXCEPT !.virt = v]
                [] OTHER -> [sa EXCEPT !.fo = f[1], !.fon = f[2]] IN        \* the setter stores what it is given
    /\ sa.live = 1 /\ sa' = s1
    /\ act' = SaEvent("g_set", [field |-> field, v |-> v, fo |-> IntSeq(f[1]), fon |-> f[2]], s1)
GSame(op) == sa.live = 1 /\ UNCHANGED sa /\ act' = SaEvent(op, Z, sa)
GNext == /\ dom = "sg" /\ UNCHANGED <<dom, tn, cache, vs, el, qc, xs, ps>>
         /\ \/ \E id \in 1..2 : \E f \in FoArgs : \E virt \in {-1, 0, 1} : \E nel \in 0..1 : GNew(id, f, virt, nel)
            \/ \E v \in 1..2 : GSet("id", v, <<{}, 0>>)
            \/ \E v \in 0..1 : GSet("virt", v, <<{}, 0>>)
            \/ \E f \in FoArgs : GSet("fo", 0, f)
            \/ GSame("g_move") \/ GSame("g_2d")

(* ======================================================================================== *)
(* eq: pairs of part lists; key = the dict key of the shipped __eq__                         *)
(* ======================================================================================== *)
QSignParts  == {e \in ElU(QFams, QVals) : e[2] # "other"}
QInterParts == {<<i, l>> : i \in 1..2, l \in {<<>>, <<1>>, <<1, 2>>}}
QLists(kind) == CASE kind = "sign" -> SeqsUpTo(QSignParts, QMaxLen)
                  [] kind = "element" -> SeqsUpTo(QVals, QMaxLen)
                  [] OTHER -> SeqsUpTo(QInterParts, QMaxLen)
QStates == UNION {[kind : {k}, a : QLists(k), b : QLists(k)] : k \in {"sign", "element", "inter"}}
KeyOf(kind, p) == IF kind = "sign" THEN <<p[1], p[2]>> ELSE p[1]
LastOf(kind, s, key) == s[Max({i \in DOMAIN s : KeyOf(kind, s[i]) = key})]
Keys(kind, s) == {KeyOf(kind, s[i]) : i \in DOMAIN s}
ImplEq(kind, a, b) ==
    IF kind = "element" \/ ~DEV_EqDictCollapse THEN Range(a) = Range(b)        \* set(additional_values) / repaired: as the hash
    ELSE Keys(kind, a) = Keys(kind, b) /\ \A k \in Keys(kind, a) : LastOf(kind, a, k) = LastOf(kind, b, k)
ImplEqEvent(q) == [op |-> "q_eq", a |-> [kind |-> q.kind, a |-> q.a, b |-> q.b],
                   eqab |-> B(ImplEq(q.kind, q.a, q.b)), eqba |-> B(ImplEq(q.kind, q.b, q.a)),
                   neab |-> 1 - B(ImplEq(q.kind, q.a, q.b)), hsame |-> B(Range(q.a) = Range(q.b))]   \* hash: frozenset of the parts

(* ======================================================================================== *)
(* x: one Intersection (held by a network together with a second, fixed one)                 *)
(* ======================================================================================== *)
OtherId  == 9
OtherLl  == <<8, 9>>
XIncIds  == {i \in XIds : i >= 0}
IncArgs  == {[iid |-> i, ll |-> IntSeq(L[1]), lln |-> L[2]] : i \in XIds, L \in {<<S, 0>> : S \in XLSets} \cup {<<{}, 1>>}}
IncArgLists == SeqsUpTo(IncArgs, XMaxIncs)
Natural(v) == v >= 0
IncSeq(r)  == [iid |-> r.iid, ll |-> IntSeq(r.ll), lln |-> r.lln, sr |-> IntSeq(r.sr), ss |-> IntSeq(r.ss), sl |-> IntSeq(r.sl),
               lo |-> r.lo]
XEvent(op, a, res, x1) == [op |-> op, a |-> a, res |-> res, pid |-> x1.id, pincs |-> [i \in DOMAIN x1.incs |-> IncSeq(x1.incs[i])],
                           pcr |-> IntSeq(x1.cr), pcrn |-> x1.crn]
ImplInc(a) == [NewInc(a) EXCEPT !.lln = a.lln]                      \* incoming_lanelets is stored as given
XNew(id, incs, cr, crn) ==
    LET ok == (Natural(id) /\ \A i \in DOMAIN incs : Natural(incs[i].iid)) \/ DEV_SetterUnchecked
        x1 == IF ok THEN [live |-> 1, id |-> id, incs |-> [i \in DOMAIN incs |-> ImplInc(incs[i])], cr |-> cr, crn |-> 0] ELSE xs
    IN /\ xs.live = 0 /\ xs' = x1
       /\ act' = XEvent("x_new", [id |-> id, idk |-> "int", incs |-> incs, cr |-> IntSeq(cr), crn |-> crn],
                        IF ok THEN "ok" ELSE "AssertionError", x1)
XSet(op, a, ok, x1) == /\ xs.live = 1 /\ xs' = (IF ok THEN x1 ELSE xs)
                       /\ act' = XEvent(op, a, IF ok THEN "ok" ELSE "AssertionError", IF ok THEN x1 ELSE xs)
XSetId(v)   == XSet("x_setid", [v |-> v, idk |-> "int"], Natural(v) \/ DEV_SetterUnchecked, [xs EXCEPT !.id = v])
XSetCr(cr, crn) == XSet("x_setcr", [cr |-> IntSeq(cr), crn |-> crn], TRUE, [xs EXCEPT !.cr = cr])
XSetIncs(incs)  == XSet("x_setincs", [incs |-> incs], TRUE, [xs EXCEPT !.incs = [i \in DOMAIN incs |-> ImplInc(incs[i])]])
NSetId(k, v)    == XSet("n_setid", [k |-> k, v |-> v, idk |-> "int"], Natural(v) \/ DEV_SetterUnchecked, [xs EXCEPT !.incs[k].iid = v])
NSetLl(k, L)    == XSet("n_setll", [k |-> k, ll |-> IntSeq(L[1]), lln |-> L[2]], TRUE, [xs EXCEPT !.incs[k].ll = L[1], !.incs[k].lln = L[2]])
NSetSucc(k, d, s) == XSet("n_setsucc", [k |-> k, dir |-> d, s |-> IntSeq(s)], TRUE,
                          CASE d = "r" -> [xs EXCEPT !.incs[k].sr = s] [] d = "s" -> [xs EXCEPT !.incs[k].ss = s]
                            [] OTHER -> [xs EXCEPT !.incs[k].sl = s])
NSetLo(k, v)    == XSet("n_setlo", [k |-> k, v |-> v], TRUE, [xs EXCEPT !.incs[k].lo = v])
LastInc(l)  == xs.incs[Max({i \in DOMAIN xs.incs : l \in xs.incs[i].ll})].iid        \* dict comprehension: the last one wins
MapSeq      == [j \in DOMAIN IntSeq(ULL(xs)) |-> <<IntSeq(ULL(xs))[j], LastInc(IntSeq(ULL(xs))[j])>>]
XCrash      == DEV_MapNoneCrash /\ HasNoneLl(xs)
XMap    == /\ xs.live = 1 /\ UNCHANGED xs
           /\ act' = XEvent("x_map", Z, IF XCrash THEN "TypeError" ELSE "ok", xs)
                     @@ [m |-> IF XCrash THEN <<>> ELSE MapSeq, ident |-> 1]
XNetMap == /\ xs.live = 1 /\ UNCHANGED xs
           /\ act' = XEvent("x_netmap", [oid |-> OtherId, oll |-> OtherLl], IF XCrash THEN "TypeError" ELSE "ok", xs)
                     @@ [m |-> IF XCrash THEN <<>>
                               ELSE [j \in DOMAIN IntSeq(ULL(xs)) |-> <<IntSeq(ULL(xs))[j], xs.id>>]
                                    \o [j \in DOMAIN OtherLl |-> <<OtherLl[j], OtherId>>]]
XNext == /\ dom = "x" /\ UNCHANGED <<dom, tn, cache, vs, el, sa, qc, ps>>
         /\ \/ \E id \in XIds : \E incs \in IncArgLists : \E c \in {<<{}, 1>>, <<{}, 0>>, <<{4}, 0>>} : XNew(id, incs, c[1], c[2])
            \/ \E v \in XIds : XSetId(v)
            \/ \E c \in {<<{}, 1>>, <<{}, 0>>, <<{4}, 0>>} : XSetCr(c[1], c[2])
            \/ \E incs \in {q \in IncArgLists : Len(q) <= 1 /\ \A i \in DOMAIN q : q[i].iid = 1 /\ q[i].lln = 0 /\ Len(q[i].ll) = 1} :
                  XSetIncs(incs)
            \/ \E k \in DOMAIN xs.incs :
                  \/ \E v \in XIds : NSetId(k, v)
                  \/ \E L \in {<<S, 0>> : S \in XLSets} \cup {<<{}, 1>>} : NSetLl(k, L)
                  \/ \E d \in XDirs : \E s \in {{}, {3}} : NSetSucc(k, d, s)
                  \/ \E v \in XLo : NSetLo(k, v)
            \/ XMap \/ XNetMap

(* ======================================================================================== *)
(* p: a scenario with dynamic obstacles and the ground truth predictor                       *)
(* ======================================================================================== *)
Steps(a, b) == [i \in 1..(b - a + 1) |-> a + i - 1]
ObKinds == {[kind |-> "none", ts |-> <<>>], [kind |-> "set", ts |-> <<1, 2>>]}
           \cup {[kind |-> "traj", ts |-> Steps(a, b)] : a \in 1..PTMax, b \in 1..PTMax}
ObLists == {q \in SeqsUpTo({o \in ObKinds : o.kind # "traj" \/ o.ts # <<>>}, PMaxObs) : TRUE}
WithIds(q) == [i \in DOMAIN q |-> [oid |-> 10 + i, kind |-> q[i].kind, ts |-> q[i].ts]]
PsInit == [live |-> 0, obs |-> <<>>, warm |-> 0, occ |-> <<>>]
Full(obs, occ) == [i \in DOMAIN obs |->
    [oid |-> obs[i].oid, kind |-> obs[i].kind, ts |-> obs[i].ts,
     it0 |-> IF obs[i].ts = <<>> THEN -1 ELSE obs[i].ts[1], fin |-> IF obs[i].ts = <<>> THEN -1 ELSE obs[i].ts[Len(obs[i].ts)],
     occ |-> occ[i]]]
PNew(q) == /\ ps.live = 0
           /\ ps' = [live |-> 1, obs |-> WithIds(q), warm |-> 0, occ |-> [i \in DOMAIN q |-> q[i].ts]]
           /\ act' = [op |-> "p_new", a |-> [obs |-> WithIds(q)], res |-> "ok", post |-> Full(ps'.obs, ps'.occ)]
PTouch  == /\ ps.live = 1 /\ ps' = [ps EXCEPT !.warm = 1]
           /\ act' = [op |-> "p_touch", a |-> Z, res |-> "ok", post |-> Full(ps.obs, ps.occ)]
(* the loop: obstacles 1..n in order; the first one without anything to cut stops it (shipped: crashes there) *)
FirstOut(t0) == IF \A i \in DOMAIN ps.obs : InC(ps.obs[i], t0) THEN Len(ps.obs) + 1
                ELSE Min({i \in DOMAIN ps.obs : ~InC(ps.obs[i], t0)})
PPredict(t0, dflt) ==
    LET t   == IF dflt = 1 THEN 0 ELSE t0
        lim == IF DEV_PredictCrash THEN FirstOut(t) ELSE Len(ps.obs) + 1
        obs1 == [i \in DOMAIN ps.obs |-> IF i < lim /\ InC(ps.obs[i], t) THEN [ps.obs[i] EXCEPT !.ts = Cut(@, t)] ELSE ps.obs[i]]
        occ1 == [i \in DOMAIN ps.obs |-> IF DEV_StaleOccupancy /\ ps.warm = 1 THEN ps.occ[i] ELSE obs1[i].ts]
    IN /\ ps.live = 1 /\ (dflt = 1 => t0 = 0)
       /\ ps' = [ps EXCEPT !.obs = obs1, !.occ = occ1]
       /\ act' = [op |-> "p_predict", a |-> [t0 |-> t0, dflt |-> dflt],
                  res |-> IF lim <= Len(ps.obs) THEN "crash" ELSE "ok", same |-> 1, post |-> Full(obs1, occ1)]
PNext == /\ dom = "p" /\ UNCHANGED <<dom, tn, cache, vs, el, sa, qc, xs>>
         /\ \/ \E q \in ObLists : PNew(q)
            \/ PTouch
            \/ \E t0 \in 0..(PTMax + 1) : PPredict(t0, 0)
            \/ PPredict(0, 1)

(* ======================================================================================== *)
Init == /\ dom \in Domains
        /\ tn = TnInit /\ cache = {} /\ el = ElInit /\ sa = SaInit /\ xs = NoInter /\ ps = PsInit
        /\ vs \in (IF dom = "tsv" THEN VStates ELSE {[c |-> "ZAMUNDA", e1 |-> <<>>, e2 |-> <<>>, both |-> 0]})
        /\ qc \in (IF dom = "eq" THEN QStates ELSE {[kind |-> "element", a |-> <<>>, b |-> <<>>]})
        /\ act = [op |-> "init"]
Next == INext \/ ENext \/ GNext \/ XNext \/ PNext
Spec == Init /\ [][Next]_vars

(* ---- the contract, as invariants and action properties of the implementation model ------ *)
ElSt == [live |-> el.live, vals |-> el.vals]
SaSt == [id |-> sa.id, fo |-> sa.fo, fon |-> sa.fon, virt |-> sa.virt, nel |-> sa.nel]
PropTsiRefines == [][dom = "tsi" => IClause([c |-> tn.c, N |-> NetOf(tn)], act') = ""]_vars
PropElRefines  == [][dom = "el" => EClause(ElSt, act') = ""]_vars
PropSgRefines  == [][dom = "sg" => GClause(SaSt, act') = ""]_vars
PropXRefines   == [][dom = "x" => (XClause(xs, act') = "" /\ (xs'.live = 1 => XMatch(xs', XPost(xs, act'))))]_vars
PropPRefines   == [][dom = "p" => (PClause(ps.obs, act') = "" /\ ps'.obs = PPost(ps.obs, act'))]_vars
PropPredictIdem == [][(dom = "p" /\ act'.op = "p_predict" /\ act'.res = "ok") =>       \* applying it again changes nothing
                        \A i \in DOMAIN ps'.obs : InC(ps.obs[i], act'.a.t0) =>
                            (Cut(ps'.obs[i].ts, act'.a.t0) = ps'.obs[i].ts /\ ps'.obs[i].ts[1] >= act'.a.t0)]_vars
VQSets == SUBSET (1..(NL + 1))
InvTsvRefines == dom = "tsv" => \A S \in VQSets : \A op \in {"v_speed", "v_req"} :
                    LET r == ImplQuery(vs.c, VNet(vs), S, KindOf(op)) IN
                    QClause(vs.c, VNet(vs), [op |-> op, a |-> [S |-> IntSeq(S)], res |-> r, fres |-> r]) = ""
InvTsvLaws    == dom = "tsv" => /\ \A S \in SUBSET (1..NL) : LawSafe(vs.c, VNet(vs), S) /\ LawDefiniteAccepted(vs.c, VNet(vs), S)
                                                             /\ LawNoSigns(vs.c, VNet(vs), S)
                                /\ \A S1, S2 \in SUBSET (1..NL) : LawUnion(vs.c, VNet(vs), S1, S2) /\ LawAntitone(vs.c, VNet(vs), S1, S2)
InvTsiLaws    == dom = "tsi" => \A S \in SUBSET (1..NL) : LawSafe(tn.c, NetOf(tn), S) /\ LawDefiniteAccepted(tn.c, NetOf(tn), S)
InvEqRefines  == dom = "eq" => (QEqClause(ImplEqEvent(qc)) = "" /\ LawExpected3(qc.a, qc.b))
InvXMap       == (dom = "x" /\ xs.live = 1 /\ ~HasNoneLl(xs)) => MapOk(xs, MapSeq)
InvPCut       == (dom = "p" /\ ps.live = 1) => \A i \in DOMAIN ps.obs : \A a, b \in 0..(PTMax + 1) :
                    LawCutCompose(ps.obs[i].ts, a, b) /\ LawCutAll(ps.obs[i].ts, a) /\ LawCutSub(ps.obs[i].ts, a)

(* ---- generation (GEN configurations, -workers 1) ---------------------------------------- *)
StKey == CASE dom = "tsi" -> [d |-> dom, live |-> tn.live, signs |-> SignsSeq(tn), refs |-> RefsSeq(tn)]
           [] dom = "el"  -> [d |-> dom, live |-> el.live[1] + el.live[2], lv |-> el.live, vals |-> el.vals, al |-> el.al]
           [] dom = "sg"  -> [d |-> dom, live |-> sa.live, id |-> sa.id, fo |-> IntSeq(sa.fo), fon |-> sa.fon, virt |-> sa.virt,
                              nel |-> sa.nel]
           [] dom = "x"   -> [d |-> dom, live |-> xs.live, id |-> xs.id, incs |-> [i \in DOMAIN xs.incs |-> IncSeq(xs.incs[i])],
                              cr |-> IntSeq(xs.cr)]
           [] dom = "p"   -> [d |-> dom, live |-> ps.live, obs |-> ps.obs, warm |-> ps.warm]
           [] OTHER       -> [d |-> dom, live |-> 0]
EmitEdge == PrintT(<<"EDGE", ToJson([from |-> StKey, act |-> [op |-> act'.op, a |-> act'.a], to |-> StKey'])>>)
EmitCase == /\ (dom = "tsv") => PrintT(<<"CASE", ToJson([kind |-> "tsv", c |-> vs.c, e1 |-> vs.e1, e2 |-> vs.e2, both |-> vs.both])>>)
            /\ (dom = "eq") => PrintT(<<"CASE", ToJson([kind |-> "eq", k |-> qc.kind, a |-> qc.a, b |-> qc.b])>>)
=================================================================================
