SPECIFICATION Spec
CONSTANTS
  Full = FALSE
  DEV_SmallAngleLinearised = FALSE
  DEV_EnvironmentNotMoved = FALSE
INVARIANT TypeOK
INVARIANT LawDist
INVARIANT LawArea
INVARIANT LawUnit
INVARIANT LawInv
INVARIANT LawInvValid
INVARIANT LawUndoTwo
INVARIANT LawUndoOne
INVARIANT LawUnion
INVARIANT LawIdentity
INVARIANT LawImplConforms
