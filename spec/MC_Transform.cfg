SPECIFICATION Spec
CONSTANTS
  Full = FALSE
INVARIANT TypeOK
INVARIANT LawDist
INVARIANT LawArea
INVARIANT LawUnit
INVARIANT LawInv
INVARIANT LawInvValid
INVARIANT LawUndoTwo
INVARIANT LawUndoOne
INVARIANT LawUnion
INVARIANT LawIdentity
