SPECIFICATION Spec
CONSTANTS
  Full = FALSE
  DEV_SmallAngleLinearised = FALSE
  DEV_EnvironmentNotMoved = FALSE
INVARIANT G_TypeOK
INVARIANT G_LawDist
INVARIANT G_LawArea
INVARIANT G_LawUnit
INVARIANT G_LawInv
INVARIANT G_LawInvValid
INVARIANT G_LawUndoTwo
INVARIANT G_LawUndoOne
INVARIANT G_LawUnion
INVARIANT G_LawIdentity
INVARIANT G_LawImplConforms
INVARIANT G_LawVel
INVARIANT G_LawCompose
