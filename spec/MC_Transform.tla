------------------------------ MODULE MC_Transform ------------------------------
(* Model for C05: one state per case (target level instance, translation, rotation token, role mix, undo     *)
(* mode).  TLC checks the laws of Transform.tla with exact rationals on the reference World and emits the     *)
(* cases that the harness executes on the real code.                                                        *)
EXTENDS Transform, Json

CONSTANT Full          \* TRUE: full product targets x translations x tokens, undo none / two / one by translation (thorough tier)
(* deviation constants: behaviour of the code as shipped when this check was built (documented findings).    *)
(* With all of them FALSE the implementation-shaped motion below IS the contract motion.                    *)
CONSTANTS DEV_SmallAngleLinearised,   \* translation_rotation_matrix uses cos = 1, sin = a for |a| <= 0.05
          DEV_EnvironmentNotMoved     \* EnvironmentObstacle has no translate_rotate

VARIABLES tgt, t, rot, mix, undo, seed
vars == <<tgt, t, rot, mix, undo, seed>>

Trans == {<<0, 0>>, <<3, -2>>, <<-50, 70>>}
(* one or two tokens per angle class, both sides of the 0.05 branch, both signs, a full turn                 *)
RotSample == {<<1, 0, 1, 0>>, <<0, 1, 1, 0>>, <<-1, 0, 1, -1>>, <<3, 4, 5, 0>>, <<-20, -21, 29, 0>>, <<5, -12, 13, 1>>,
              <<399, 40, 401, 0>>, <<1520, -78, 1522, 0>>, <<1599, 80, 1601, 0>>, <<1599, -80, 1601, 0>>,
              <<9999, 200, 10001, 0>>, <<1599, 80, 1601, -1>>, <<1, 0, 1, 1>>, <<1680, -82, 1682, 1>>}
MixRot == {<<3, 4, 5, 0>>, <<0, -1, 1, 0>>, <<1599, 80, 1601, 0>>, <<399, -40, 401, 1>>}
ASSUME RotSample \subseteq Rot /\ MixRot \subseteq Rot
ASSUME {AngleClass(r) : r \in RotSample} = {"axis", "generic", "small<=0.05", "small>0.05", "near2pi"}
ASSUME {AngleClass(r) : r \in Rot} = {"axis", "generic", "small<=0.05", "small>0.05", "near2pi"}

Case(g, tt, r, m, u) == [tgt |-> g, t |-> tt, rot |-> r, mix |-> m, undo |-> u]
AllT == Targets(WorldOf(Roles))
(* histories: two motions on the same object / three motions on fresh objects, back to back in one process *)
SeqRot == {<<3, 4, 5, 0>>, <<0, 1, 1, 0>>, <<1599, 80, 1601, 0>>}
SeqTargets == {g \in AllT : Len(g) <= 2 \/ Level(g) \in {"lanelet", "stop_line", "sign", "trajectory", "shape_rect", "shape_polygon"}}
Cases ==
    (IF Full
     THEN {Case(g, tt, r, Roles, IF tt = <<0, 0>> THEN "none" ELSE IF tt = <<3, -2>> THEN "two" ELSE "one") :
                g \in AllT, tt \in Trans, r \in Rot}
     ELSE {c \in {Case(g, <<3, -2>>, r, Roles, IF Len(g) = 1 THEN "two" ELSE "none") : g \in AllT, r \in Rot} :
                Len(c.tgt) = 1 \/ c.rot \in RotSample \/ (c.rot[4] = 0 /\ (c.rot[3] \in {1, 5} \/ IsSmallTok(c.rot)))}
                \* the whole table at the two roots; below: axis, (3,4,5) octants, all small angles, the sampled tokens
          \cup {Case(g, <<-50, 70>>, r, Roles, "two") : g \in AllT, r \in RotSample}
          \cup {Case(g, <<-50, 70>>, r, Roles, "one") : g \in AllT, r \in MixRot}
          \cup {Case(g, <<0, 0>>, r, Roles, "none") : g \in AllT, r \in RotSample})
    \cup {Case(<<SC>>, <<3, -2>>, r, m, "none") : r \in MixRot, m \in (SUBSET Roles) \ {Roles}}
    \cup {Case(g, pr[1], r, Roles, u) : g \in SeqTargets, pr \in SeqPairs, r \in SeqRot, u \in {"seq-same", "seq-other"}}
    \cup UNION {{Case(g, <<3, -2>>, r, {part}, "none") : g \in Targets(WorldOf({part})), r \in IF Full THEN Rot ELSE RotSample}
                : part \in Parts}          \* the state-class universes: every class, every level, the sampled tokens

(* One state per case.  TLC computes initial states on a single thread, so the cases hang below NSeeds idle seed      *)
(* states (seed k owns the cases of bucket k): the laws are then evaluated by all workers.            *)
NSeeds == 16
Bucket(c) == (c.rot[1] + 3 * c.rot[2] + 5 * Len(c.tgt) + 7 * c.t[1] + Len(c.tgt[Len(c.tgt)][2])) % NSeeds
Live == seed = -1
Init == seed \in 0..(NSeeds - 1) /\ tgt = <<>> /\ t = <<0, 0>> /\ rot = Ident /\ mix = {} /\ undo = "seed"
Next == /\ seed >= 0
        /\ \E c \in Cases : Bucket(c) = seed /\ tgt' = c.tgt /\ t' = c.t /\ rot' = c.rot /\ mix' = c.mix /\ undo' = c.undo
        /\ seed' = -1
Spec == Init /\ [][Next]_vars

W == WorldOf(mix)
ScopeComps == {c \in Range(W) : InScope(tgt, c)}
ScopePts   == UNION {Range(c.pts) : c \in ScopeComps}
ScopeOris  == UNION {Range(c.oris) : c \in ScopeComps}

TypeOK == tgt \in Targets(W) /\ rot \in Rot /\ mix \subseteq Roles \cup Parts /\ ScopeComps # {}
(* every pairwise squared distance inside the moved sub-tree is preserved (cross-multiplied by den^2)        *)
LawDist == \A p \in ScopePts : \A q \in ScopePts : DistLaw(rot, t, p, q)
(* polygon signed areas are preserved: no shear, no scaling, no reflection                                   *)
LaneletRing(path) ==      \* right boundary, then the left boundary backwards
    LET R == CHOOSE c \in Range(W) : c.kind = "lanelet_right" /\ c.path = path
        L == CHOOSE c \in Range(W) : c.kind = "lanelet_left" /\ c.path = path
    IN R.pts \o [i \in DOMAIN L.pts |-> L.pts[Len(L.pts) + 1 - i]]
LawArea == rot \in AlgRot =>
    /\ \A c \in ScopeComps : IsPoly(c) => AreaLaw(rot, t, c.pts) /\ Area2(c.pts) # 0
    /\ \A c \in ScopeComps : c.kind = "lanelet_right" => AreaLaw(rot, t, LaneletRing(c.path)) /\ Area2(LaneletRing(c.path)) > 0
(* rotated directions stay unit vectors *)
LawUnit == rot \in AlgRot => \A o \in ScopeOris : UnitLaw(o, rot)
(* a rotated velocity keeps its magnitude; a point-mass heading turns with it (direction of the image = heading + a) *)
LawVel == rot \in AlgRot => \A c \in ScopeComps : \A i \in DOMAIN c.vels :
            LET v == c.vels[i]  w == Moved(c, t, rot).vels[i]
            IN /\ w[1] * w[1] + w[2] * w[2] = rot[3] * rot[3] * (v[1] * v[1] + v[2] * v[2])
               /\ c.vrule = "rotate" /\ v[1] * v[1] + v[2] * v[2] = 25 => <<w[1], w[2]>> = <<AngleSum(<<v[1], v[2], 5>>, rot)[1], AngleSum(<<v[1], v[2], 5>>, rot)[2]>>
LawCompose == (undo \in {"seq-same", "seq-other"} /\ rot[3] <= 29) => \A p \in ScopePts : ComposeLaw(rot, t, Partner(t), p)
(* TR followed by its Undo (either form) is the identity *)
LawInv == rot \in AlgRot => AngleSum(<<rot[1], rot[2], rot[3]>>, Inv(rot)) = <<rot[3] * rot[3], 0, rot[3] * rot[3]>>
LawInvValid == Inv(rot) \in Rot /\ Inv(Inv(rot))[1] = rot[1] /\ Inv(Inv(rot))[2] = rot[2]
LawUndoTwo == rot \in AlgRot => \A p \in ScopePts : UndoTwoLaw(rot, t, p)
LawUndoOne == rot \in AlgRot => \A p \in ScopePts : UndoOneLaw(rot, t, p)
(* all spatial components are moved together: TR at a level = pointwise union of TR on its parts, and the    *)
(* parts do not overlap; everything outside the addressed sub-tree stays                                     *)
LawUnion ==
    LET K == Children(W, tgt)
    IN \A i \in DOMAIN W :
         /\ ~InScope(tgt, W[i]) => TRComp(W[i], tgt, t, rot) = Unmoved(W[i], rot) /\ \A k \in K : ~InScope(k, W[i])
         /\ InScope(tgt, W[i]) /\ W[i].path # tgt /\ Level(W[i].path) \notin NonTargets =>   \* (a query result is derived, no part)          \* stored below the target: moved by exactly one part
              /\ Cardinality({k \in K : InScope(k, W[i])}) = 1
              /\ \A k \in K : InScope(k, W[i]) => TRComp(W[i], tgt, t, rot) = TRComp(W[i], k, t, rot)
         /\ W[i].path = tgt => TRComp(W[i], tgt, t, rot) = Moved(W[i], t, rot)     \* stored by the target itself
(* the identity motion fixes everything; a non-trivial rotation fixes no direction                           *)
LawIdentity == (rot[1] = rot[3] /\ t = <<0, 0>>) => \A c \in ScopeComps : Moved(c, t, rot) = Unmoved(c, rot)

(* ---- implementation-shaped motion with the deviations switched on ---- *)
ImplImage(r, tt, p) ==
    LET cc == IF DEV_SmallAngleLinearised /\ AngleClass(r) = "small<=0.05" THEN r[3] ELSE r[1]     \* cos a := 1
    IN <<cc * (p[1] + tt[1]) - r[2] * (p[2] + tt[2]), r[2] * (p[1] + tt[1]) + cc * (p[2] + tt[2])>>
ImplMoved(c) == IF DEV_EnvironmentNotMoved /\ c.kind = "env_shape" THEN Unmoved(c, rot)
                ELSE [pts |-> [i \in DOMAIN c.pts |-> ImplImage(rot, t, c.pts[i])],
                      oris |-> [i \in DOMAIN c.oris |-> AngleSum(c.oris[i], rot)],
                      vels |-> Moved(c, t, rot).vels]
LawImplConforms == \A c \in ScopeComps : ImplMoved(c) = Moved(c, t, rot)
LawImplRigid == \A p \in ScopePts : \A q \in ScopePts :
                    Safe(rot, p, q) => Dist2(ImplImage(rot, t, p), ImplImage(rot, t, q)) = rot[3] * rot[3] * Dist2(p, q)

(* the laws as invariants: they speak about case states only *)
G_TypeOK == Live => TypeOK
G_LawDist == Live => LawDist
G_LawArea == Live => LawArea
G_LawUnit == Live => LawUnit
G_LawVel == Live => LawVel
G_LawInv == Live => LawInv
G_LawInvValid == Live => LawInvValid
G_LawCompose == Live => LawCompose
G_LawUndoTwo == Live => LawUndoTwo
G_LawUndoOne == Live => LawUndoOne
G_LawUnion == Live => LawUnion
G_LawIdentity == Live => LawIdentity
G_LawImplConforms == Live => LawImplConforms
G_LawImplRigid == Live => LawImplRigid

(* ---- generation ---- *)
Emit == Live => PrintT(<<"CASE", ToJson([tgt |-> tgt, t |-> t, rot |-> rot, mix |-> mix, undo |-> undo,
                                  steps |-> IF undo = "none" THEN <<>> ELSE IF undo \in {"seq-same", "seq-other"} THEN SeqSteps(t, rot, undo)
                                            ELSE UndoSteps(t, rot, undo),
                                  cls |-> AngleClass(rot), level |-> Level(tgt)])>>)
=================================================================================
