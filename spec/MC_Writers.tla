-------------------------------- MODULE MC_Writers --------------------------------
(* Implementation-shaped model: the process-global precision (precision.decimals, set by every   *)
(* writer constructor, read at write time) and the XML writer's element tree that is created in  *)
(* __init__ and appended to by every write.  TLC explores all interleavings of constructing      *)
(* writers and writing with them; the contract is checked as an action property.                 *)
EXTENDS Writers, Json
CONSTANTS MaxWriters, MaxSteps, Precisions, Paths,
          DEV_GlobalPrecision,      \* float_to_str reads the precision of the writer constructed LAST
          DEV_AccumulatingRoot,     \* XMLFileWriter appends to one element tree across writes
          DEV_NoTruncate,           \* the file is opened without truncation: a longer old file keeps its tail
          DEV_NetworkCached,        \* a writer assembles the road network once and reuses it for its later writes
          DEV_FailedWriteKeepsDoc   \* a write that raises (target directory missing) leaves its document in the XML writer

VARIABLES writers, files, gprec, tree, steps, act,
          nlan,      \* number of lanelets of the (shared) scenario: edited between writes by EditScenario
          wnet,      \* per writer: the network size it saw at its first write (0 = has not written yet)
          pend       \* per writer: documents left over from writes that raised
vars == <<writers, files, gprec, tree, steps, act, nlan, wnet, pend>>
View == <<writers, files, gprec, tree, steps, nlan, wnet, pend>>
W == 1..MaxWriters

A(op, w, path, mode, kind, fmt, d) == [op |-> op, w |-> w, path |-> path, mode |-> mode, kind |-> kind, fmt |-> fmt, d |-> d]
Init == /\ writers = <<>> /\ files = [p \in {} |-> NoFile] /\ gprec = 4 /\ tree = <<>> /\ steps = 0
        /\ nlan = 1 /\ wnet = <<>> /\ pend = <<>>
        /\ act = A("init", 0, "", "", "", "", 0)

(* abstract length of a file: more decimals, planning problems and copies make it longer *)
Size(c) == (IF c.fmt = "xml" THEN 20 + c.digits ELSE IF c.fmt = "pb" THEN 10 ELSE 1000) + 5 * c.pp + 40 * c.copies * c.nl
Garbled == [fmt |-> "garbled", digits |-> 0, copies |-> 0, pp |-> 0, nl |-> 0]

New(fmt, d) ==
    /\ Len(writers) < MaxWriters
    /\ writers' = Append(writers, [fmt |-> fmt, d |-> d]) /\ tree' = Append(tree, [n |-> 0, pp |-> 0])
    /\ gprec' = d /\ UNCHANGED <<files, nlan>> /\ wnet' = Append(wnet, 0) /\ pend' = Append(pend, 0)
    /\ act' = A("new", Len(writers) + 1, "", "", "", fmt, d)

Write(w, path, mode, kind) ==
    LET wr == writers[w]
        t1 == IF DEV_AccumulatingRoot /\ wr.fmt = "xml"
              THEN [n |-> tree[w].n + 1, pp |-> tree[w].pp + (IF kind = "full" THEN 1 ELSE 0)]
              ELSE [n |-> 1, pp |-> IF kind = "full" THEN 1 ELSE 0]
        content == [fmt |-> wr.fmt,
                    digits |-> IF wr.fmt = "xml" THEN (IF DEV_GlobalPrecision THEN gprec ELSE wr.d) ELSE 0,
                    copies |-> t1.n + (IF wr.fmt = "xml" THEN pend[w] ELSE 0), pp |-> t1.pp,
                    nl |-> IF DEV_NetworkCached /\ wnet[w] # 0 THEN wnet[w] ELSE nlan]
        onDisk == IF DEV_NoTruncate /\ path \in DOMAIN files /\ Size(files[path]) > Size(content)
                  THEN Garbled ELSE content          \* new bytes followed by the old file's tail
    IN /\ w \in 1..Len(writers)
       /\ IF Skipped(files, path, mode) THEN UNCHANGED <<files, tree, wnet, pend>>
          ELSE /\ files' = [p \in DOMAIN files \cup {path} |-> IF p = path THEN onDisk ELSE files[p]]
               /\ tree' = [tree EXCEPT ![w] = t1]
               /\ wnet' = [wnet EXCEPT ![w] = IF @ = 0 THEN nlan ELSE @]
               /\ pend' = [pend EXCEPT ![w] = 0]
       /\ UNCHANGED <<writers, gprec, nlan>>
       /\ act' = A("write", w, path, mode, kind, wr.fmt, wr.d)

(* the user edits the scenario the writers reference (a lanelet is added) *)
EditScenario == /\ nlan < 2 /\ nlan' = nlan + 1 /\ UNCHANGED <<writers, files, gprec, tree, wnet, pend>>
                /\ act' = A("edit", 0, "", "", "", "", 0)

(* a write into a directory that does not exist raises; nothing is written and nothing may stay behind in the writer *)
FailedWrite(w, kind) ==
    /\ w \in 1..Len(writers)
    /\ pend' = [pend EXCEPT ![w] = IF DEV_FailedWriteKeepsDoc THEN @ + 1 ELSE 0]
    /\ UNCHANGED <<writers, files, gprec, tree, nlan, wnet>>
    /\ act' = A("fail", w, "", "", kind, writers[w].fmt, writers[w].d)

Next == /\ steps < MaxSteps /\ steps' = steps + 1
        /\ \/ \E fmt \in Formats, d \in Precisions : New(fmt, d)
           \/ EditScenario
           \/ \E w \in W, k \in Kinds : FailedWrite(w, k)
           \/ \E w \in W, p \in Paths, m \in Modes, k \in Kinds : Write(w, p, m, k)
Spec == Init /\ [][Next]_vars

(* the contract *)
PropOwnInputs == [][act'.op = "write" =>
                      IF Skipped(files, act'.path, act'.mode) THEN files' = files
                      ELSE files'[act'.path] = F(writers[act'.w], act'.kind, nlan)]_vars
InvFiles == \A p \in DOMAIN files : files[p].copies = 1 /\ files[p].fmt \in Formats

StKey == [writers |-> writers, files |-> files, gprec |-> gprec, tree |-> tree, steps |-> steps, nlan |-> nlan, wnet |-> wnet, pend |-> pend]
Emit == PrintT(<<"EDGE", ToJson([from |-> StKey, act |-> act', to |-> StKey'])>>)
===================================================================================
