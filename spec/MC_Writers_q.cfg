SPECIFICATION Spec
CONSTANTS
  MaxWriters = 2
  MaxSteps = 5
  Precisions = {2, 6}
  Paths = {"a", "b"}
  DEV_GlobalPrecision = FALSE
  DEV_AccumulatingRoot = FALSE
    DEV_NoTruncate = FALSE
  DEV_NetworkCached = FALSE
  DEV_FailedWriteKeepsDoc = FALSE
VIEW View
PROPERTY PropOwnInputs
INVARIANT InvFiles
