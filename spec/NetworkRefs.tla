------------------------------- MODULE NetworkRefs -------------------------------
(* C10 - removing or cutting out lanelet-network elements leaves no dangling references.       *)
(* Functional core of the contract.  A network is a record of id-valued attributes only        *)
(* (geometry is irrelevant here): which lanelets / signs / lights / intersection exist and      *)
(* every relation that refers to ids.  The contract is a predicate on (pre, operation, post)    *)
(* written from the statement:                                                                  *)
(*   NoDangling          every id in a listed relation refers to a remaining element            *)
(*   RelationsUntouched  each relation restricted to the remaining ids is unchanged             *)
(*   KeptUnchanged       every element not selected for removal is still present                *)
(*   HangingRule         a sign/light goes with a lanelet only if no remaining lanelet refers   *)
(*                       to it                                                                  *)
EXTENDS Integers, Sequences, FiniteSets, TLC

CONSTANTS NL            \* number of lanelets in the universe (ids 1..NL)
Lan == 1..NL
Sig == {11, 12}
Lig == {21}
Xid == {31}
Inc == {32, 33}

Range(q) == {q[i] : i \in DOMAIN q}
EmptyF(D) == [i \in D |-> {}]
NoInc == [il |-> {}, sr |-> {}, ss |-> {}, sl |-> {}]
EmptyNet ==
    [L |-> {}, pred |-> EmptyF(Lan), succ |-> EmptyF(Lan), al |-> [i \in Lan |-> 0], ar |-> [i \in Lan |-> 0],
     ald |-> [i \in Lan |-> 0], ard |-> [i \in Lan |-> 0],
     sg |-> EmptyF(Lan), lt |-> EmptyF(Lan), stp |-> [i \in Lan |-> 0], ssg |-> EmptyF(Lan), slt |-> EmptyF(Lan),
     S |-> {}, T |-> {}, X |-> {}, I |-> {}, inc |-> [k \in Inc |-> NoInc], cr |-> {}]

(* well-formedness assumed by the statement (and by the drivers): references resolve, a stop line refers only to  *)
(* signs/lights its lanelet also references, no lanelet is its own neighbour                                       *)
WellFormed(n) ==
    /\ \A i \in n.L : /\ n.pred[i] \subseteq n.L \ {i} /\ n.succ[i] \subseteq n.L \ {i}
                      /\ n.al[i] \in (n.L \ {i}) \cup {0} /\ n.ar[i] \in (n.L \ {i}) \cup {0}
                      /\ n.sg[i] \subseteq n.S /\ n.lt[i] \subseteq n.T
                      /\ n.ssg[i] \subseteq n.sg[i] /\ n.slt[i] \subseteq n.lt[i]
                      /\ (n.stp[i] = 0 => n.ssg[i] = {} /\ n.slt[i] = {})
    /\ (n.X = {} => n.I = {})
    /\ \A k \in n.I : n.inc[k].il \cup n.inc[k].sr \cup n.inc[k].ss \cup n.inc[k].sl \subseteq n.L
    /\ n.cr \subseteq n.L

(* ---- restriction of a network to remaining lanelets R, signs S1, lights T1, intersections X1, incomings I1 ---- *)
Restrict(n, R, S1, T1, X1, I1) ==
    LET keep(f) == [i \in Lan |-> IF i \in R THEN f[i] \cap R ELSE {}]
        adj(f)  == [i \in Lan |-> IF i \in R /\ f[i] \in R THEN f[i] ELSE 0]
        dir(f, d) == [i \in Lan |-> IF i \in R /\ f[i] \in R THEN d[i] ELSE 0]
        refs(f, A) == [i \in Lan |-> IF i \in R THEN f[i] \cap A ELSE {}]
    IN [L |-> R, pred |-> keep(n.pred), succ |-> keep(n.succ),
        al |-> adj(n.al), ar |-> adj(n.ar), ald |-> dir(n.al, n.ald), ard |-> dir(n.ar, n.ard),
        sg |-> refs(n.sg, S1), lt |-> refs(n.lt, T1),
        stp |-> [i \in Lan |-> IF i \in R THEN n.stp[i] ELSE 0], ssg |-> refs(n.ssg, S1), slt |-> refs(n.slt, T1),
        S |-> S1, T |-> T1, X |-> X1, I |-> I1,
        inc |-> [k \in Inc |-> IF k \in I1 THEN [il |-> n.inc[k].il \cap R, sr |-> n.inc[k].sr \cap R,
                                                 ss |-> n.inc[k].ss \cap R, sl |-> n.inc[k].sl \cap R] ELSE NoInc],
        cr |-> IF X1 = {} THEN {} ELSE n.cr \cap R]

RefdSigns(n, Ls)  == UNION {n.sg[i] : i \in Ls}
RefdLights(n, Ls) == UNION {n.lt[i] : i \in Ls}
HangS(n, gone) == (RefdSigns(n, gone) \ RefdSigns(n, n.L \ gone)) \cap n.S
HangT(n, gone) == (RefdLights(n, gone) \ RefdLights(n, n.L \ gone)) \cap n.T
(* incoming elements a cut-out must keep: they still have an incoming lanelet and a successor in the new network *)
MustInc(n, K) == {k \in n.I : n.inc[k].il \cap K # {} /\ (n.inc[k].sr \cup n.inc[k].ss \cup n.inc[k].sl) \cap K # {}}

(* ---- operations: records [op, ids (sequence of ids), ref (0/1)] ------------------------------------------- *)
IdSet(a) == Range(a.ids)
Between(lo, x, hi) == lo \subseteq x /\ x \subseteq hi
(* the expected post network, given what the post network decided where the statement leaves a choice; returns    *)
(* <<admissible, expected>>: `admissible` names the violated rule about element presence ("" if none)             *)
Expected(n, a, p) ==
    CASE a.op \in {"net_remove_lanelet", "net_remove_lanelet_nortree"} \/ (a.op = "sc_remove_lanelet" /\ a.ref = 0) ->
            \* (remove_lanelet(id, rtree=False) only defers the rebuild of the spatial index, not the reference clean-up)
            <<"", Restrict(n, n.L \ IdSet(a), n.S, n.T, n.X, n.I)>>
      [] a.op = "sc_remove_lanelet" /\ a.ref = 1 ->
            LET gone == IdSet(a) \cap n.L
                ok == Between(n.S \ HangS(n, gone), p.S, n.S) /\ Between(n.T \ HangT(n, gone), p.T, n.T)
            IN <<IF ok THEN "" ELSE "C10.HangingRule", Restrict(n, n.L \ gone, p.S, p.T, n.X, n.I)>>
      [] a.op \in {"net_remove_sign", "sc_remove_sign"} -> <<"", Restrict(n, n.L, n.S \ IdSet(a), n.T, n.X, n.I)>>
      [] a.op \in {"net_remove_light", "sc_remove_light"} -> <<"", Restrict(n, n.L, n.S, n.T \ IdSet(a), n.X, n.I)>>
      [] a.op \in {"net_remove_inter", "sc_remove_inter"} ->
            <<"", Restrict(n, n.L, n.S, n.T, n.X \ IdSet(a), IF n.X \ IdSet(a) = {} THEN {} ELSE n.I)>>
      [] a.op \in {"cut_shape", "cut_types"} ->          \* ids = the lanelets that stay
            LET K == IdSet(a) \cap n.L
                okS == Between(RefdSigns(n, K) \cap n.S, p.S, n.S) /\ Between(RefdLights(n, K) \cap n.T, p.T, n.T)
                okI == Between(MustInc(n, K), p.I, n.I) /\ (MustInc(n, K) # {} => p.X = n.X) /\ p.X \subseteq n.X
                       /\ (p.X = {} => p.I = {})
            IN <<IF ~okS THEN "C10.KeptUnchanged/sign-or-light" ELSE IF ~okI THEN "C10.KeptUnchanged/intersection" ELSE "",
                 Restrict(n, K, p.S, p.T, p.X, p.I)>>
      [] a.op = "from_list" ->                             \* a network made of lanelets only
            <<"", Restrict(n, IdSet(a) \cap n.L, {}, {}, {}, {})>>

Dangles(p) ==      \* name of the first relation of the post network that refers to a missing element ("" if none)
    IF \E i \in p.L : ~(p.pred[i] \subseteq p.L) THEN "predecessor"
    ELSE IF \E i \in p.L : ~(p.succ[i] \subseteq p.L) THEN "successor"
    ELSE IF \E i \in p.L : ~(p.al[i] \in p.L \cup {0}) \/ ~(p.ar[i] \in p.L \cup {0}) THEN "adjacent"
    ELSE IF \E i \in p.L : ~(p.sg[i] \subseteq p.S) THEN "lanelet-sign"
    ELSE IF \E i \in p.L : ~(p.lt[i] \subseteq p.T) THEN "lanelet-light"
    ELSE IF \E i \in p.L : ~(p.ssg[i] \subseteq p.S) THEN "stopline-sign"
    ELSE IF \E i \in p.L : ~(p.slt[i] \subseteq p.T) THEN "stopline-light"
    ELSE IF \E k \in p.I : ~(p.inc[k].il \subseteq p.L) THEN "incoming-lanelets"
    ELSE IF \E k \in p.I : ~((p.inc[k].sr \cup p.inc[k].ss \cup p.inc[k].sl) \subseteq p.L) THEN "incoming-successors"
    ELSE IF ~(p.cr \subseteq p.L) THEN "crossings"
    ELSE ""

FirstDiff(p, e) ==     \* name of the first attribute in which post and expected differ ("" if equal)
    IF p.L # e.L THEN (IF e.L \subseteq p.L THEN "Effect/lanelet-not-removed" ELSE "KeptUnchanged/lanelet")
    ELSE IF p.S # e.S THEN (IF e.S \subseteq p.S THEN "Effect/sign-not-removed" ELSE "KeptUnchanged/sign")
    ELSE IF p.T # e.T THEN (IF e.T \subseteq p.T THEN "Effect/light-not-removed" ELSE "KeptUnchanged/light")
    ELSE IF p.X # e.X THEN (IF e.X \subseteq p.X THEN "Effect/intersection-not-removed" ELSE "KeptUnchanged/intersection")
    ELSE IF p.I # e.I THEN "KeptUnchanged/incoming"
    ELSE IF p.pred # e.pred THEN "RelationsUntouched/predecessor"
    ELSE IF p.succ # e.succ THEN "RelationsUntouched/successor"
    ELSE IF p.al # e.al \/ p.ar # e.ar THEN "RelationsUntouched/adjacent"
    ELSE IF p.ald # e.ald \/ p.ard # e.ard THEN "RelationsUntouched/adjacent-direction"
    ELSE IF p.sg # e.sg THEN "RelationsUntouched/lanelet-sign"
    ELSE IF p.lt # e.lt THEN "RelationsUntouched/lanelet-light"
    ELSE IF p.stp # e.stp THEN "KeptUnchanged/stopline"
    ELSE IF p.ssg # e.ssg THEN "RelationsUntouched/stopline-sign"
    ELSE IF p.slt # e.slt THEN "RelationsUntouched/stopline-light"
    ELSE IF p.inc # e.inc THEN "RelationsUntouched/incoming"
    ELSE IF p.cr # e.cr THEN "RelationsUntouched/crossings"
    ELSE ""

(* the contract clause for one step: "" if (n, a, p) is allowed *)
Clause(n, a, p) ==
    LET x == Expected(n, a, p)
        d == Dangles(p)
        f == FirstDiff(p, x[2])
    IN IF d # "" THEN "C10.NoDangling/" \o d
       ELSE IF x[1] # "" THEN x[1]
       ELSE IF f # "" THEN "C10." \o f
       ELSE ""
===================================================================================
