----------------------------- MODULE ObstacleLife -----------------------------
(* X08 (extended coverage) - the obstacle OBJECT as a state machine over its non-geometric time   *)
(* series and parameters (commonroad/scenario/obstacle.py, plus the wheelbase_lengths property of *)
(* TrajectoryPrediction), written from the docstrings, the messages of the argument asserts, the   *)
(* CHANGELOG ("Enforce InitialState class for initial state property of dynamic obstacle") and the *)
(* format definition (XSD / protobuf enumerations).  Geometry (C04), lanelet registries (C07),    *)
(* pose histories / cache freshness (C11) and equality (C12) are NOT repeated here.               *)
(*                                                                                                  *)
(* Functional core: no variables.  Four groups of operations, each with an event shape and         *)
(*     Clause(st, e)   name of the violated clause ("" = accepted)                                  *)
(*     Post(st, e)     abstract state after e (re-synchronised to what the event reports)          *)
(*                                                                                                  *)
(* 1. d_*  StaticObstacle / DynamicObstacle as one object with the observable snapshot             *)
(*      ob = [cls, id, role, type, shape, t0, tag, sig, ser, cen, shp, pred, meta, mser, ext,      *)
(*            hist, shist, chist, phist]                                                            *)
(*      t0, tag   time step / content tag of initial_state                                          *)
(*      sig       initial_signal_state <<t, tag>>          NoSig  = None                           *)
(*      ser       signal_series  <<sig, ...>>              NoSer  = None                           *)
(*      cen, shp  initial_center / shape_lanelet_ids as a sorted list     NoIds = None             *)
(*      pred      prediction token (0 = None)                                                       *)
(*      meta      initial_meta_information_state tag (-1 = None), mser series of tags (NoMSer)     *)
(*      ext       external_dataset_id (-1 = None)                                                   *)
(*      hist / shist / chist / phist   history, signal_history, center_/shape_lanelet_ids_history  *)
(*    (a static obstacle carries the defaults in the dynamic-only fields)                           *)
(* 2. p_*  parameter surfaces as a table: (class, attribute, value token) -> accept / reject /     *)
(*         immutable / either;  roles per class; the two enumerations                               *)
(* 3. s_*  Scenario.obstacles_by_role_and_type over add / remove / update histories                *)
(* Where the documentation is silent both behaviours are accepted; the EITHER bands are marked     *)
(* `silent` below.                                                                                  *)
EXTENDS Integers, Sequences, FiniteSets, TLC

Range(s)    == {s[i] : i \in DOMAIN s}
LastN(s, n) == IF Len(s) <= n THEN s ELSE SubSeq(s, Len(s) - n + 1, Len(s))
IsSuffix(a, b) == Len(a) <= Len(b) /\ a = SubSeq(b, Len(b) - Len(a) + 1, Len(b))

NoSig  == <<-1, -1>>
NoSer  == << <<-2, -2>> >>
NoIds  == <<-1>>
NoMeta == -1
NoMSer == <<-1>>
NoExt  == -1

Fields == {"cls", "id", "role", "type", "shape", "t0", "tag", "sig", "ser", "cen", "shp", "pred", "meta", "mser",
           "ext", "hist", "shist", "chist", "phist"}
RoleOfClass(c) == CASE c = "static" -> "static" [] c = "dynamic" -> "dynamic"
                    [] c = "phantom" -> "phantom" [] c = "environment" -> "environment"

(* allowed-value records: field -> set of acceptable values *)
One(st)          == [f \in Fields |-> {st[f]}]
Check(A, post)   == LET bad == {f \in Fields : post[f] \notin A[f]} IN IF bad = {} THEN "" ELSE CHOOSE f \in bad : TRUE
ParallelLens(o)  == Len(o.hist) = Len(o.shist) /\ Len(o.hist) = Len(o.chist) /\ Len(o.hist) = Len(o.phist)

(* ======================================================================================== *)
(* 1a. construction: every parameter is stored as given, omitted ones are None, the four     *)
(*     histories default to empty lists, the role follows from the class                      *)
(* ======================================================================================== *)
NewExp(a) == [f \in Fields |-> IF f = "role" THEN RoleOfClass(a.cls) ELSE a[f]]
NewClause(e) ==
  IF e.res # "ok" THEN "X08.Construct/valid-rejected"
  ELSE LET d == Check(One(NewExp(e.a)), e.post) IN IF d = "" THEN "" ELSE "X08.Construct/" \o d

(* ======================================================================================== *)
(* 1b. plain setters.  kind = "valid" (a value of a documented type, None where the          *)
(*     annotation / assert allows it), "bad" (a type the assert rejects), "odd" (silent:      *)
(*     frozenset / numpy ints for id sets, a tuple for a series, bool for external id)        *)
(*     attr "init" = initial_state (val = <<t, tag>>), int-valued attributes carry val = <<n>> *)
(* ======================================================================================== *)
IntAttrs == {"pred", "meta", "ext"}
SetTarget(st, e) == IF e.attr = "init" THEN [st EXCEPT !.t0 = e.val[1], !.tag = e.val[2]]
                    ELSE IF e.attr \in IntAttrs THEN [st EXCEPT ![e.attr] = e.val[1]]
                    ELSE [st EXCEPT ![e.attr] = e.val]
SetClause(st, e) ==
  CASE e.kind = "valid" -> IF e.res # "ok" THEN "X08.Set/" \o e.attr \o "-valid-rejected"
                           ELSE IF e.post # SetTarget(st, e) THEN "X08.Set/" \o e.attr \o "-effect" ELSE ""
    [] e.kind = "bad"   -> IF e.res = "ok" THEN "X08.Set/" \o e.attr \o "-invalid-accepted"
                           ELSE IF e.post # st THEN "X08.Set/reject-not-atomic" ELSE ""
    [] e.kind = "odd"   -> IF e.res = "ok" THEN (IF e.post # SetTarget(st, e) THEN "X08.Set/" \o e.attr \o "-effect" ELSE "")
                           ELSE IF e.post # st THEN "X08.Set/reject-not-atomic" ELSE ""          \* silent: accept or reject
    [] OTHER -> "machinery/unknown-set-kind"

(* 1c. immutable parameters ("Obstacle ID / role / type / shape is immutable"): never change, *)
(*     and the caller is told (a warning or an exception), for right- and wrong-typed values  *)
ImmClause(st, e) == IF e.post # st THEN "X08.Immutable/" \o e.attr \o "-changed"
                    ELSE IF e.res = "ok" THEN "X08.Immutable/" \o e.attr \o "-silent" ELSE ""

(* ======================================================================================== *)
(* 1d. update_initial_state(current_state, current_signal_state, current_center_lanelet_ids, *)
(*     current_shape_lanelet_ids, max_history_length): "Updates the initial state to the given *)
(*     current state, appends the current initial state to the history, and invalidates the   *)
(*     prediction"; the current signal state / lanelet ids "will become the new initial ..."  *)
(*     (None when not given); "maximum length of the history, if the history exceeds this it  *)
(*     will be truncated, dropping the oldest elements first; must be greater than 0".         *)
(*     The four histories are parallel lists (entry i = the values replaced by the i-th update) *)
(*     a = [t, tag, sig, cen, shp, maxh, bad]; bad = "" | "trace" (a TraceState that is not an *)
(*     InitialState: the annotation admits it, the initial_state setter does not - either) |   *)
(*     "state" / "sig" / "cen" / "shp" (a value of a wrong type) ; maxh <= 0 must be rejected   *)
(* ======================================================================================== *)
MustReject == {"state", "sig", "cen", "shp"}
UpdExp(st, wild, a) ==
  LET H(l, x) == IF wild THEN {LastN(Append(l, x), a.maxh), Append(l, x)}     \* silent: lists of unequal length handed to the constructor
                 ELSE {LastN(Append(l, x), a.maxh)}
  IN [One(st) EXCEPT !["hist"]  = H(st.hist, <<st.t0, st.tag>>), !["shist"] = H(st.shist, st.sig),
                     !["chist"] = H(st.chist, st.cen),           !["phist"] = H(st.phist, st.shp),
                     !["t0"] = {a.t}, !["tag"] = {a.tag}, !["sig"] = {a.sig}, !["cen"] = {a.cen}, !["shp"] = {a.shp},
                     !["pred"] = {0},
                     !["ser"]  = {NoSer, st.ser},                 \* silent: the signal series is a prediction too - dropped or kept
                     !["meta"] = {st.meta, NoMeta},               \* silent: no current meta information can be given
                     !["mser"] = {st.mser, NoMSer}]
UpdClause(st, wild, e) ==
  LET a == e.a  ok == e.res = "ok"
      eff == LET d == Check(UpdExp(st, wild, a), e.post) IN IF d = "" THEN "" ELSE "X08.Update/" \o d
      atomic == IF e.post # st THEN "X08.Update/reject-not-atomic" ELSE ""
  IN IF a.maxh <= 0 THEN (IF ok THEN "X08.Update/nonpositive-max-history-accepted" ELSE atomic)
     ELSE IF a.bad \in MustReject THEN (IF ok THEN "X08.Update/invalid-" \o a.bad \o "-accepted" ELSE atomic)
     ELSE IF a.bad = "trace" THEN (IF ok THEN eff ELSE atomic)
     ELSE IF ~ok THEN "X08.Update/valid-rejected" ELSE eff

(* 1e. update_prediction(prediction, signal_series): "Updates the prediction"; signal_series = *)
(*     "updated prediction of the signal state" (optional).  kind = "valid" | "none" (prediction *)
(*     None: the annotation does not list it - either) | "bad"                                    *)
UpPredExp(st, e) == [One(st) EXCEPT !["pred"] = {e.pred},
                                    !["ser"]  = IF e.ser = NoSer THEN {NoSer, st.ser} ELSE {e.ser}]   \* silent when omitted
UpPredClause(st, e) ==
  LET ok == e.res = "ok"
      eff == LET d == Check(UpPredExp(st, e), e.post) IN IF d = "" THEN "" ELSE "X08.UpdatePrediction/" \o d
      atomic == IF e.post # st THEN "X08.UpdatePrediction/reject-not-atomic" ELSE ""
  IN CASE e.kind = "valid" -> IF ~ok THEN "X08.UpdatePrediction/valid-rejected" ELSE eff
       [] e.kind = "none"  -> IF ok THEN eff ELSE atomic
       [] e.kind = "bad"   -> IF ok THEN "X08.UpdatePrediction/invalid-accepted" ELSE atomic
       [] OTHER -> "machinery/unknown-uppred-kind"

(* 1f. signal_state_at_time_step(t): "signal state or None if time step does not exist".      *)
(*     idx: 0 = None, -1 = the initial signal state, k >= 1 = k-th entry of the series,          *)
(*     -2 = some other object.  Silent on which one when several states carry the time step.     *)
SigCands(st, t) == (IF st.sig # NoSig /\ st.sig[1] = t THEN {-1} ELSE {})
                   \cup (IF st.ser = NoSer THEN {} ELSE {i \in DOMAIN st.ser : st.ser[i][1] = t})
SigAtOk(st, t)  == IF SigCands(st, t) = {} THEN {0} ELSE SigCands(st, t)
SigAtClause(st, e) ==
  IF e.post # st THEN "X08.SignalAt/mutates"
  ELSE IF e.res # "ok" THEN "X08.SignalAt/raises"
  ELSE IF e.idx \in SigAtOk(st, e.t) THEN ""
  ELSE IF SigCands(st, e.t) = {} THEN "X08.SignalAt/none-expected"
  ELSE IF e.idx = 0 THEN "X08.SignalAt/missed" ELSE "X08.SignalAt/wrong-state"

(* 1g. str(obstacle): total, pure, and names the obstacle (its id) *)
StrClause(st, e) == IF e.post # st THEN "X08.Str/mutates"
                    ELSE IF e.res # "ok" THEN "X08.Str/raises"
                    ELSE IF e.hasid # 1 THEN "X08.Str/id-missing" ELSE ""

(* 1h. hash(obstacle) ("Hash function of obstacle", CHANGELOG): total and pure on every reachable object; a deep    *)
(*     copy is equal to the object and has the same hash                                                         *)
HashClause(st, e) == IF e.post # st THEN "X08.Hash/mutates"
                     ELSE IF e.res # "ok" THEN "X08.Hash/raises"
                     ELSE IF e.eqcopy # 1 THEN "X08.Hash/deepcopy-not-equal"
                     ELSE IF e.samehash # 1 THEN "X08.Hash/deepcopy-other-hash" ELSE ""

DOps == {"d_new", "d_set", "d_imm", "d_update", "d_uppred", "d_sig_at", "d_str", "d_hash"}
DClause(o, e) ==
  CASE e.op = "d_new"    -> NewClause(e)
    [] e.op = "d_set"    -> SetClause(o.ob, e)
    [] e.op = "d_imm"    -> ImmClause(o.ob, e)
    [] e.op = "d_update" -> UpdClause(o.ob, o.wild, e)
    [] e.op = "d_uppred" -> UpPredClause(o.ob, e)
    [] e.op = "d_sig_at" -> SigAtClause(o.ob, e)
    [] e.op = "d_str"    -> StrClause(o.ob, e)
    [] e.op = "d_hash"   -> HashClause(o.ob, e)
DPost(o, e) == [ob |-> e.post, wild |-> IF e.op = "d_new" THEN ~ParallelLens(e.post) ELSE o.wild]

(* ======================================================================================== *)
(* 2. parameter surfaces of the other classes (one fresh object per event)                   *)
(*    p_set: cls, attr, tok -> res ("ok" | "warned" | exception name), changed (getter differs *)
(*    from before), stored (getter returns the assigned value)                                 *)
(* ======================================================================================== *)
(* rule: "immutable" | "accept" | "reject" | "either" *)
Surface == {
  <<"environment", "obstacle_id",    "int",      "immutable">>, <<"environment", "obstacle_id",    "str",  "immutable">>,
  <<"environment", "obstacle_role",  "role",     "immutable">>, <<"environment", "obstacle_role",  "str",  "immutable">>,
  <<"environment", "obstacle_type",  "type",     "immutable">>, <<"environment", "obstacle_type",  "str",  "immutable">>,
  <<"environment", "obstacle_shape", "shape",    "immutable">>, <<"environment", "obstacle_shape", "str",  "immutable">>,
  <<"environment", "obstacle_shape", "none",     "immutable">>,
  <<"phantom",     "obstacle_role",  "role",     "immutable">>, <<"phantom",     "obstacle_role",  "str",  "immutable">>,
  <<"phantom",     "obstacle_id",    "int",      "either">>,       \* silent: a plain attribute, the other classes call the id immutable
  <<"phantom",     "prediction",     "setpred",  "accept">>,    <<"phantom",     "prediction",     "none", "accept">>,
  <<"phantom",     "prediction",     "trajpred", "reject">>,    <<"phantom",     "prediction",     "str",  "reject">>,
  <<"dynamic",     "prediction",     "setpred",  "accept">>,    <<"dynamic",     "prediction",     "trajpred", "accept">>,
  <<"dynamic",     "prediction",     "none",     "accept">>,    <<"dynamic",     "prediction",     "str",  "reject">>,
  <<"static",      "obstacle_id",    "int",      "immutable">>, <<"static",      "obstacle_role",  "role", "immutable">>,
  <<"static",      "obstacle_type",  "type",     "immutable">>, <<"static",      "obstacle_shape", "shape", "immutable">>,
  <<"trajpred",    "wheelbase_lengths", "floats", "accept">>,   <<"trajpred",    "wheelbase_lengths", "none", "accept">>,
  <<"trajpred",    "wheelbase_lengths", "ctor-floats", "accept">>,  \* given to the constructor as keyword
  \* constructor arguments of a wrong type (attr "ctor.<parameter>"): the asserts of the setters reject them
  <<"static",      "ctor.obstacle_id", "str", "reject">>,   <<"static",      "ctor.obstacle_type", "str", "reject">>,
  <<"static",      "ctor.obstacle_shape", "str", "reject">>, <<"static",     "ctor.initial_state", "ksstate", "reject">>,
  <<"static",      "ctor.signal_series", "str", "reject">>, <<"static",      "ctor.initial_center_lanelet_ids", "list", "reject">>,
  <<"dynamic",     "ctor.obstacle_id", "str", "reject">>,   <<"dynamic",     "ctor.obstacle_type", "str", "reject">>,
  <<"dynamic",     "ctor.obstacle_shape", "str", "reject">>, <<"dynamic",    "ctor.initial_state", "ksstate", "reject">>,
  <<"dynamic",     "ctor.prediction", "str", "reject">>,    <<"dynamic",     "ctor.external_dataset_id", "str", "reject">>,
  <<"dynamic",     "ctor.initial_signal_state", "str", "reject">>, <<"dynamic", "ctor.initial_shape_lanelet_ids", "list", "reject">>,
  <<"dynamic",     "ctor.initial_meta_information_state", "str", "reject">>, <<"dynamic", "ctor.meta_information_series", "str", "reject">>,
  <<"environment", "ctor.obstacle_id", "str", "reject">>,   <<"environment", "ctor.obstacle_type", "str", "reject">>,
  <<"environment", "ctor.obstacle_shape", "str", "reject">>,
  <<"phantom",     "ctor.prediction", "trajpred", "reject">>,
  <<"phantom",     "ctor.obstacle_id", "str", "either">>          \* silent: PhantomObstacle does not check its id
}
RuleOf(cls, attr, tok) == IF \E r \in Surface : r[1] = cls /\ r[2] = attr /\ r[3] = tok
                          THEN (CHOOSE r \in Surface : r[1] = cls /\ r[2] = attr /\ r[3] = tok)[4] ELSE "unknown"
PSetClause(e) ==
  LET r == RuleOf(e.cls, e.attr, e.tok)  n == e.cls \o "." \o e.attr IN
  CASE r = "immutable" -> IF e.changed # 0 THEN "X08.Immutable/" \o n \o "-changed"
                          ELSE IF e.res = "ok" THEN "X08.Immutable/" \o n \o "-silent" ELSE ""
    [] r = "accept"    -> IF e.res # "ok" THEN "X08.Param/" \o n \o "-valid-rejected"
                          ELSE IF e.stored # 1 THEN "X08.Param/" \o n \o "-not-stored" ELSE ""
    [] r = "reject"    -> IF e.res = "ok" \/ e.res = "warned" THEN "X08.Param/" \o n \o "-invalid-accepted"
                          ELSE IF e.changed # 0 THEN "X08.Param/reject-not-atomic" ELSE ""
    [] r = "either"    -> IF e.res = "ok" /\ e.stored = 1 THEN "" ELSE IF e.changed = 0 THEN "" ELSE "X08.Param/" \o n \o "-half-set"
    [] OTHER -> "machinery/unknown-surface-row"

(* the format definition: XSD obstacleRole / obstacleType{Static,Dynamic,Environment}, protobuf ObstacleTypeEnum *)
TypeValues == {"unknown", "parkedVehicle", "constructionZone", "roadBoundary",                                   \* static
               "car", "truck", "bus", "motorcycle", "bicycle", "pedestrian", "priorityVehicle", "train", "taxi", \* dynamic
               "building", "pillar", "median_strip"}                                                              \* environment
TypeNames  == {"UNKNOWN", "CAR", "TRUCK", "BUS", "BICYCLE", "PEDESTRIAN", "PRIORITY_VEHICLE", "PARKED_VEHICLE",
               "CONSTRUCTION_ZONE", "TRAIN", "ROAD_BOUNDARY", "MOTORCYCLE", "TAXI", "BUILDING", "PILLAR", "MEDIAN_STRIP"}
RoleValues == {"static", "dynamic", "environment", "phantom"}
PEnumClause(e) ==
  LET vals == Range(e.values) IN
  IF Len(e.values) # Cardinality(vals) THEN "X08.Enum/" \o e.name \o "-duplicate-values"
  ELSE IF e.lookup # 1 THEN "X08.Enum/" \o e.name \o "-lookup-by-value"
  ELSE IF e.name = "ObstacleType" THEN
         (IF vals # TypeValues THEN "X08.Enum/ObstacleType-values" ELSE IF Range(e.names) # TypeNames THEN "X08.Enum/ObstacleType-names" ELSE "")
  ELSE IF e.name = "ObstacleRole" THEN (IF vals # RoleValues THEN "X08.Enum/ObstacleRole-values" ELSE "")
  ELSE "machinery/unknown-enum"
PRoleClause(e) == IF e.role # RoleOfClass(e.cls) THEN "X08.Role/" \o e.cls ELSE ""

PStrClause(e)  == IF e.res # "ok" THEN "X08.Str/raises" ELSE IF e.hasid # 1 THEN "X08.Str/id-missing" ELSE ""

POps == {"p_set", "p_enum", "p_role", "p_str"}
PClause(e) == CASE e.op = "p_set" -> PSetClause(e) [] e.op = "p_enum" -> PEnumClause(e) [] e.op = "p_role" -> PRoleClause(e)
                [] e.op = "p_str" -> PStrClause(e)

(* ======================================================================================== *)
(* 3. Scenario.obstacles_by_role_and_type(role, type): "list of all obstacles satisfying the *)
(*    given obstacle_role and obstacle_type" (None = any), over histories of add / remove /  *)
(*    attempted type change / update_initial_state.  S = set of <<id, role, type>>; a phantom *)
(*    obstacle has no type ("")                                                                *)
(* ======================================================================================== *)
SIds(S) == {o[1] : o \in S}
Filter(S, role, type) == {o[1] : o \in {o \in S : (role = "" \/ o[2] = role) /\ (type = "" \/ o[3] = type)}}
SClause(S, e) ==
  LET P == Range(e.post) IN
  CASE e.op = "s_add"     -> IF e.o[1] \in SIds(S) THEN ""                                  \* id uniqueness is C09's business
                             ELSE IF e.res # "ok" THEN "X08.ScenarioAdd/raises"
                             ELSE IF P # S \cup {<<e.o[1], e.o[2], e.o[3]>>} THEN "X08.ScenarioAdd/contents" ELSE ""
    [] e.op = "s_remove"  -> IF e.i \notin SIds(S) THEN ""
                             ELSE IF e.res # "ok" THEN "X08.ScenarioRemove/raises"
                             ELSE IF P # {o \in S : o[1] # e.i} THEN "X08.ScenarioRemove/contents" ELSE ""
    [] e.op = "s_settype" -> IF P # S THEN "X08.Immutable/type-changed-in-scenario"
                             ELSE IF e.res = "ok" THEN "X08.Immutable/type-silent" ELSE ""
    [] e.op = "s_update"  -> IF e.res # "ok" THEN "X08.ScenarioUpdate/raises"
                             ELSE IF P # S THEN "X08.ScenarioUpdate/membership" ELSE ""
    [] e.op = "s_filter"  -> IF P # S THEN "X08.Filter/mutates"
                             ELSE IF e.res # "ok" THEN "X08.Filter/raises"
                             ELSE IF Len(e.ids) # Cardinality(Range(e.ids)) THEN "X08.Filter/duplicates"
                             ELSE IF Range(e.ids) # Filter(S, e.role, e.type) THEN "X08.Filter/contents" ELSE ""
SOps == {"s_add", "s_remove", "s_settype", "s_update", "s_filter"}

(* ======================================================================================== *)
DefaultOb == [cls |-> "dynamic", id |-> 0, role |-> "dynamic", type |-> "car", shape |-> 0, t0 |-> 0, tag |-> 0, sig |-> NoSig,
              ser |-> NoSer, cen |-> NoIds, shp |-> NoIds, pred |-> 0, meta |-> NoMeta, mser |-> NoMSer, ext |-> NoExt,
              hist |-> <<>>, shist |-> <<>>, chist |-> <<>>, phist |-> <<>>]
Empty == [o |-> [ob |-> DefaultOb, wild |-> FALSE], S |-> {}]
Clause(st, e) == CASE e.op \in DOps -> DClause(st.o, e)
                   [] e.op \in POps -> PClause(e)
                   [] e.op \in SOps -> SClause(st.S, e)
                   [] OTHER -> "machinery/unknown-op"
Post(st, e)   == [o |-> IF e.op \in DOps THEN DPost(st.o, e) ELSE st.o,
                  S |-> IF e.op \in SOps THEN Range(e.post) ELSE st.S]

(* ---- laws of the contract operators (checked by TLC in MC_ObstacleLife) ----------------- *)
LawLastN(s, n)      == /\ Len(LastN(s, n)) = (IF Len(s) <= n THEN Len(s) ELSE n) /\ IsSuffix(LastN(s, n), s)
(* every acceptable result of a valid update keeps the four histories parallel, within the bound, oldest first, *)
(* with the replaced values as the newest entry *)
LawUpdate(st, a)    == ParallelLens(st) =>
                         \A h \in UpdExp(st, FALSE, a)["hist"], s \in UpdExp(st, FALSE, a)["shist"],
                            c \in UpdExp(st, FALSE, a)["chist"], p \in UpdExp(st, FALSE, a)["phist"] :
                           /\ Len(h) = Len(s) /\ Len(h) = Len(c) /\ Len(h) = Len(p)
                           /\ Len(h) <= a.maxh /\ Len(h) >= 1
                           /\ h[Len(h)] = <<st.t0, st.tag>> /\ s[Len(s)] = st.sig /\ c[Len(c)] = st.cen /\ p[Len(p)] = st.shp
                           /\ IsSuffix(SubSeq(h, 1, Len(h) - 1), st.hist) /\ IsSuffix(SubSeq(s, 1, Len(s) - 1), st.shist)
LawSigAt(st, T)     == \A t \in T : \A i \in SigAtOk(st, t) :
                          /\ (i = 0) <=> (SigCands(st, t) = {})
                          /\ (i = -1) => st.sig[1] = t
                          /\ (i > 0) => st.ser[i][1] = t
LawFilter(S, R, Ty) == /\ Filter(S, "", "") = SIds(S)
                       /\ \A r \in R : Filter(S, r, "") = {o[1] : o \in {o \in S : o[2] = r}}
                       /\ \A r \in R \cup {""}, y \in Ty : Filter(S, r, y) \subseteq Filter(S, r, "") \cap Filter(S, "", y)
                       /\ \A y \in Ty : Filter(S, "phantom", y) = {}
=================================================================================
