------------------------------- MODULE Occupancy -------------------------------
(* C04 - obstacle occupancy is the shape placed at the state, for every time step.                      *)
(* Functional core of the CONTRACT, written from the statement (not from the dispatch code).            *)
(* All geometry is exact: positions on the integer lattice, orientations q * pi/2 (quarter turns),      *)
(* placed vertices in DOUBLED coordinates (odd-sized boxes have half-integer corners).                   *)
(*                                                                                                        *)
(*   state  = [k |-> "state", kind, t, x, y, q, vx, vy, unc (, reg, q1, q2 when unc # "none")]            *)
(*            kind in {"initial", "oriented", "custom"} : orientation attribute q                        *)
(*            kind in {"pm", "custompm"}               : no orientation, heading = atan2(vy, vx)         *)
(*            unc  in {"none", "pos", "ori", "both"}   : position region reg around (x, y) and/or         *)
(*                                                       orientation interval [q1, q2] quarter turns      *)
(*   shape  = [k |-> "rect", a, b] (length x width) | [k |-> "disc", a] (radius) | [k |-> "poly", v]     *)
(*            (integer vertices about the shape origin) | [k |-> "group", parts |-> <<[a, b, cx, cy]>>]   *)
(*   pred   = [k |-> "none"] | [k |-> "traj", g, states] | [k |-> "set", g, occs |-> <<[t, shape, pose]>>] *)
(*            a stored occupancy may hold for a closed time INTERVAL [t, t2] (field t2 present); intervals *)
(*            may touch, overlap, be nested or leave holes, in any list order: where several stored       *)
(*            occupancies cover t each of them is an admissible answer (the statement says "the stored   *)
(*            occupancy"), and the scenario level must agree with the per-obstacle answer                  *)
(*            g = GAP between the initial time step and the first prediction step (first step t0+1+g);    *)
(*            inside the gap there is no state and no occupancy: the time horizon of a dynamic obstacle   *)
(*            is {t0} union the prediction's own steps AFTER t0.  g may be NEGATIVE: the prediction then  *)
(*            overlaps the initial time step or starts before it (an older prediction re-attached after  *)
(*            update_initial_state); the statement's rule decides: initial state at the initial time     *)
(*            step, None before it, prediction only afterwards                                            *)
(*   obstacle o = [id, role, type, t0, shape, init, pred]  (phantom: id, role, type, t0, pred)            *)
(*            role in {"static", "dynamic", "phantom", "environment"}                                     *)
(*   a trajectory prediction may carry its own shape (pred.shape, after `prediction.shape = ...`)        *)
(*   modification m (HISTORY dimension: the contract holds for the CURRENT data of the obstacle):         *)
(*            [k |-> "move", via, id, tx, ty, q]  translate by (tx, ty), then rotate by q quarter turns   *)
(*                 about the origin; via in {"obstacle", "scenario", "prediction", "trajectory"}; id = 0: *)
(*                 all obstacles.  An optional field share in {"states", "shape", "occs"} says that the    *)
(*                 SECOND obstacle of the case was built from the same state list / Shape / occupancy     *)
(*                 list OBJECT as the moved one.  The statement does not promise that such an obstacle   *)
(*                 stays where it was; it promises INTERNAL CONSISTENCY of its answers with its CURRENT    *)
(*                 primary data, which the harness reads back through public accessors:                    *)
(*            [k |-> "observed", id, init, shape, pred]  pred.states as read from trajectory.state_list,   *)
(*                 pred.shape from prediction.shape, set-based: pred.occs = <<[t, region]>> with the       *)
(*                 currently stored region (occupancy_set) in the logged lattice form                      *)
(*            [k |-> "set_trajectory", id, states] | [k |-> "set_shape", id, shape]                        *)
(*            [k |-> "update_prediction", id, pred] | [k |-> "set_prediction", id, pred] (assignment)      *)
(*            [k |-> "update_initial_state", id, state, pred]  the obstacle is advanced to a new initial  *)
(*                 state (the old prediction is dropped), optionally followed by update_prediction(pred)  *)
(*            [k |-> "set_initial_state", id, state]  assignment obstacle.initial_state = state           *)
EXTENDS Integers, Sequences, FiniteSets, TLC

Range(s) == {s[i] : i \in DOMAIN s}
Rot(q, p) == CASE q % 4 = 0 -> p
               [] q % 4 = 1 -> <<-p[2], p[1]>>
               [] q % 4 = 2 -> <<-p[1], -p[2]>>
               [] q % 4 = 3 -> <<p[2], -p[1]>>
NoneV == [k |-> "None"]
PMKinds == {"pm", "custompm"}

(* ---- pose of a state: "rotated by the orientation and moved to the position of its state; for        *)
(*      point-mass states the heading is atan2(vy, vx)" (axis directions only -> quarter turns) ------- *)
Heading(vx, vy) == CASE vx > 0 /\ vy = 0 -> 0
                     [] vx = 0 /\ vy > 0 -> 1
                     [] vx < 0 /\ vy = 0 -> 2
                     [] vx = 0 /\ vy < 0 -> 3
PoseOf(s) == <<s.x, s.y, IF s.kind \in PMKinds THEN Heading(s.vx, s.vy) ELSE s.q % 4>>

(* ---- the shape placed at a pose: exact vertex set (doubled) / centre + radius (doubled) ------------ *)
RectCorners2(l, w, c2, q) ==     \* corners of the l x w box with doubled centre c2, rotated by q quarter turns
    {LET d == Rot(q, <<sx * l, sy * w>>) IN <<c2[1] + d[1], c2[2] + d[2]>> : sx \in {-1, 1}, sy \in {-1, 1}}
Placed(sh, p) ==
    CASE sh.k = "rect"  -> [k |-> "poly", vs |-> RectCorners2(sh.a, sh.b, <<2 * p[1], 2 * p[2]>>, p[3])]
      [] sh.k = "poly"  -> [k |-> "poly", vs |-> {LET d == Rot(p[3], sh.v[i]) IN <<2 * p[1] + 2 * d[1], 2 * p[2] + 2 * d[2]>> :
                                                   i \in DOMAIN sh.v}]
      [] sh.k = "disc"  -> [k |-> "disc", c |-> <<2 * p[1], 2 * p[2]>>, r2 |-> 2 * sh.a]
      [] sh.k = "group" -> [k |-> "group",
                            parts |-> {LET c == Rot(p[3], <<sh.parts[i].cx, sh.parts[i].cy>>)
                                       IN RectCorners2(sh.parts[i].a, sh.parts[i].b,
                                                       <<2 * p[1] + 2 * c[1], 2 * p[2] + 2 * c[2]>>, p[3]) :
                                       i \in DOMAIN sh.parts}]

(* ---- which clause of the statement answers (o, t) -------------------------------------------------- *)
Src(k, i) == [k |-> k, i |-> i]
TrajStates(o) == IF o.role = "dynamic" /\ o.pred.k = "traj" THEN o.pred.states ELSE <<>>
SetOccs(o)    == IF o.role \in {"dynamic", "phantom"} /\ o.pred.k = "set" THEN o.pred.occs ELSE <<>>
Covers(c, t) == c.t <= t /\ t <= (IF "t2" \in DOMAIN c THEN c.t2 ELSE c.t)      \* stored for a time step or a closed interval
HasIntervals(o) == \E i \in DOMAIN SetOccs(o) : "t2" \in DOMAIN SetOccs(o)[i]
Sources(o, t) ==       \* every source the statement offers for (o, t); at most one, except for overlapping stored intervals
    (IF o.role = "environment" THEN {Src("Env", 0)} ELSE {})                       \* no time dimension at all
    \cup (IF o.role = "static" THEN {Src("Static", 0)} ELSE {})                    \* the same region at all times
    \cup (IF o.role = "dynamic" /\ o.init.t = t THEN {Src("Initial", 0)} ELSE {})  \* initial state at the initial time step
    \cup {Src("Traj", i) : i \in {j \in DOMAIN TrajStates(o) : TrajStates(o)[j].t = t /\ t > o.init.t}}   \* trajectory state afterwards
    \cup {Src("SetOcc", i) : i \in {j \in DOMAIN SetOccs(o) : Covers(SetOccs(o)[j], t) /\ (o.role = "phantom" \/ t > o.init.t)}}
Source(o, t) == IF Sources(o, t) = {} THEN Src("None", 0) ELSE CHOOSE s \in Sources(o, t) : TRUE

PredLen(o) == IF o.role \in {"dynamic", "phantom"}
              THEN (CASE o.pred.k = "traj" -> Len(o.pred.states) [] o.pred.k = "set" -> Len(o.pred.occs) [] OTHER -> 0)
              ELSE 0
PredGap(o) == IF o.role \in {"dynamic", "phantom"} /\ o.pred.k \in {"traj", "set"} THEN o.pred.g ELSE 0
Timeless(o)    == o.role \in {"static", "environment"}
FirstPredT(o)  == o.t0 + 1 + PredGap(o)                                   \* first step of the prediction
LastT(o)       == IF HasIntervals(o)
                  THEN (LET E == {IF "t2" \in DOMAIN SetOccs(o)[i] THEN SetOccs(o)[i].t2 ELSE SetOccs(o)[i].t : i \in DOMAIN SetOccs(o)}
                        IN CHOOSE x \in E : \A y \in E : y <= x)
                  ELSE o.t0 + PredGap(o) + PredLen(o)
InGap(o, t)    == o.t0 < t /\ t < FirstPredT(o)
InHorizon(o, t) ==     \* {t0} (a phantom has no initial state) union the prediction's own steps; the gap is outside
    \/ Timeless(o)
    \/ (o.role = "dynamic" /\ t = o.t0)
    \/ (~HasIntervals(o) /\ PredLen(o) > 0 /\ FirstPredT(o) <= t /\ t <= LastT(o) /\ (o.role = "phantom" \/ t > o.t0))
    \/ (HasIntervals(o) /\ (o.role = "phantom" \/ t > o.t0) /\ \E i \in DOMAIN SetOccs(o) : Covers(SetOccs(o)[i], t))   \* holes are outside
Overlaps(o) == o.role = "dynamic" /\ PredLen(o) > 0 /\ FirstPredT(o) <= o.t0

SrcState(o, t) ==      \* the state the occupancy at t is derived from (NoneV for stored / timeless occupancies)
    LET s == Source(o, t)
    IN CASE s.k \in {"Initial", "Static", "Env"} -> o.init
         [] s.k = "Traj" -> o.pred.states[s.i]
         [] OTHER -> NoneV
IsUncertain(o, t) == SrcState(o, t).k = "state" /\ SrcState(o, t).unc # "none"

NormRegion(r) ==       \* a region in the logged form (sequences) -> the form of Placed (sets)
    CASE r.k \in {"rect", "poly"} -> [k |-> "poly", vs |-> {<<r.vs[i][1], r.vs[i][2]>> : i \in DOMAIN r.vs}]
      [] r.k = "disc"  -> [k |-> "disc", c |-> <<r.c[1], r.c[2]>>, r2 |-> r.r2]
      [] r.k = "group" -> [k |-> "group", parts |-> {{<<r.parts[i][j][1], r.parts[i][j][2]>> : j \in DOMAIN r.parts[i]} : i \in DOMAIN r.parts}]
      [] OTHER -> [k |-> "other"]
StoredRegion(c) == IF "region" \in DOMAIN c THEN NormRegion(c.region) ELSE Placed(c.shape, c.pose)
PredShape(o) == IF o.pred.k = "traj" /\ "shape" \in DOMAIN o.pred THEN o.pred.shape ELSE o.shape
OccFrom(o, s) ==       \* the occupancy the source s stands for (exact states)
    CASE s.k = "None"   -> NoneV
      [] s.k = "SetOcc" -> StoredRegion(o.pred.occs[s.i])                               \* the stored occupancy
      [] s.k = "Traj"   -> Placed(PredShape(o), PoseOf(o.pred.states[s.i]))
      [] OTHER          -> Placed(o.shape, PoseOf(o.init))
Occ(o, t) == OccFrom(o, Source(o, t))                  \* expected occupancy (one of the admissible ones)
AdmOccs(o, t) == IF Sources(o, t) = {} THEN {NoneV} ELSE {OccFrom(o, s) : s \in Sources(o, t)}     \* all admissible answers

AllStates(o) == IF o.role \in {"static", "dynamic"} THEN {o.init} \cup Range(TrajStates(o)) ELSE {}
StateAt(o, t) ==       \* static: the initial state at all times; dynamic: the state whose time step is t
    CASE o.role = "static"  -> o.init
      [] o.role = "dynamic" -> IF t = o.init.t THEN o.init                      \* initial state at the initial time step,
                               ELSE IF t < o.init.t THEN NoneV                  \* nothing before it,
                               ELSE (LET c == {s \in Range(TrajStates(o)) : s.t = t}  \* trajectory state afterwards
                                     IN IF c = {} THEN NoneV ELSE CHOOSE s \in c : TRUE)
      [] OTHER -> NoneV

(* ---- uncertain states: obligation poses <<x2, y2, o8>> (doubled position, orientation in EIGHTH turns) *)
RegionPoints2(s) ==    \* corners and centre of the position region (nominal position when the position is exact)
    IF s.unc \in {"pos", "both"}
    THEN (CASE s.reg.k = "rect" -> {<<2 * s.x + sx * s.reg.a, 2 * s.y + sy * s.reg.b>> : sx \in {-1, 1}, sy \in {-1, 1}}
            [] s.reg.k = "disc" -> {<<2 * s.x + 2 * d[1] * s.reg.a, 2 * s.y + 2 * d[2] * s.reg.a>> :
                                      d \in {<<1, 0>>, <<0, 1>>, <<-1, 0>>, <<0, -1>>}}
            [] s.reg.k = "poly" -> {<<2 * s.x + 2 * s.reg.v[i][1], 2 * s.y + 2 * s.reg.v[i][2]>> : i \in DOMAIN s.reg.v})
         \cup {<<2 * s.x, 2 * s.y>>}
    ELSE {<<2 * s.x, 2 * s.y>>}
Oris8(s) == IF s.unc \in {"ori", "both"} THEN {2 * s.q1, s.q1 + s.q2, 2 * s.q2} ELSE {2 * PoseOf(s)[3]}   \* start, mid, end
Obligations(s) == {<<p[1], p[2], a>> : p \in RegionPoints2(s), a \in Oris8(s)}

(* ---- history: ONE public modification; all answers afterwards are those of the modified descriptor ---- *)
MoveP(m, p) == Rot(m.q, <<p[1] + m.tx, p[2] + m.ty>>)                       \* translate, then rotate about the origin
MoveState(m, s) ==     \* exact states only
    LET p == MoveP(m, <<s.x, s.y>>)  v == Rot(m.q, <<s.vx, s.vy>>)
    IN [s EXCEPT !.x = p[1], !.y = p[2], !.q = IF s.kind \in PMKinds THEN @ ELSE (@ + m.q) % 4, !.vx = v[1], !.vy = v[2]]
MoveStored(m, c) == LET p == MoveP(m, <<c.pose[1], c.pose[2]>>) IN [c EXCEPT !.pose = <<p[1], p[2], (c.pose[3] + m.q) % 4>>]
MovePred(m, pr) ==
    CASE pr.k = "traj" -> [pr EXCEPT !.states = [i \in DOMAIN pr.states |-> MoveState(m, pr.states[i])]]
      [] pr.k = "set"  -> [pr EXCEPT !.occs = [i \in DOMAIN pr.occs |-> MoveStored(m, pr.occs[i])]]
      [] OTHER -> pr
MoveObstacle(o, m) ==
    IF m.via \in {"prediction", "trajectory"} \/ o.role = "phantom" THEN [o EXCEPT !.pred = MovePred(m, @)]       \* the initial state stays
    ELSE [o EXCEPT !.init = MoveState(m, @), !.pred = MovePred(m, @)]
RePred(pr, t0) ==      \* the gap is a derived quantity: first step of the prediction relative to the (new) initial step
    CASE pr.k = "traj" -> [pr EXCEPT !.g = pr.states[1].t - t0 - 1]
      [] pr.k = "set"  -> [pr EXCEPT !.g = pr.occs[1].t - t0 - 1]
      [] OTHER -> pr
Modify(o, m) ==
    CASE m.k = "move" -> MoveObstacle(o, m)
      [] m.k = "set_trajectory" -> [o EXCEPT !.pred = [k |-> "traj", g |-> m.states[1].t - o.t0 - 1, states |-> m.states]]
      [] m.k = "set_shape" -> [o EXCEPT !.pred = [k |-> "traj", g |-> o.pred.g, states |-> o.pred.states, shape |-> m.shape]]
      [] m.k \in {"update_prediction", "set_prediction"} -> [o EXCEPT !.pred = RePred(m.pred, o.t0)]
      [] m.k = "update_initial_state" -> [o EXCEPT !.t0 = m.state.t, !.init = m.state, !.pred = RePred(m.pred, m.state.t)]
      [] m.k = "observed" -> [o EXCEPT !.t0 = m.init.t, !.init = m.init, !.shape = m.shape, !.pred = RePred(m.pred, m.init.t)]
      [] m.k = "set_initial_state" -> [o EXCEPT !.t0 = m.state.t, !.init = m.state, !.pred = RePred(@, m.state.t)]
Targets(o, m) == m.id = 0 \/ m.id = o.id
ModifyS(S, m) == [i \in DOMAIN S |-> IF Targets(S[i], m) THEN Modify(S[i], m) ELSE S[i]]
MoveRegion(m, x) ==    \* the rigid image of a placed region (doubled coordinates)
    LET mv(p) == Rot(m.q, <<p[1] + 2 * m.tx, p[2] + 2 * m.ty>>)
    IN CASE x.k = "poly"  -> [x EXCEPT !.vs = {mv(p) : p \in x.vs}]
         [] x.k = "disc"  -> [x EXCEPT !.c = mv(x.c)]
         [] x.k = "group" -> [x EXCEPT !.parts = {{mv(p) : p \in part} : part \in x.parts}]
         [] OTHER -> x

(* ---- scenario level: exactly the images of the per-obstacle answers (S = sequence of obstacles) ---- *)
RoleOK(o, role) == role = "any" \/ o.role = role
OccAt(S, t, role) == {<<o.id, Occ(o, t)>> : o \in {p \in Range(S) : RoleOK(p, role) /\ Occ(p, t).k # "None"}}
StatesAt(S, t) == {<<o.id, StateAt(o, t)>> : o \in {p \in Range(S) : StateAt(p, t).k # "None"}}
ByRoleType(S, role, type) == {o.id : o \in {p \in Range(S) : RoleOK(p, role) /\ (type = "any" \/ p.type = type)}}

Centre(o, t) ==        \* where the obstacle is at t: the position of the state / the centre of the stored region
    LET s == Source(o, t)
    IN CASE s.k = "None" -> NoneV
         [] Cardinality(Sources(o, t)) > 1 -> [k |-> "EITHER"]                  \* several stored occupancies cover t
         [] s.k = "Env" -> IF o.shape.k = "group" THEN [k |-> "EITHER"] ELSE [k |-> "at", p |-> <<o.init.x, o.init.y>>]
         [] s.k = "SetOcc" -> IF "region" \in DOMAIN o.pred.occs[s.i] THEN [k |-> "EITHER"]   \* observed region: no pose recorded
                              ELSE IF o.pred.occs[s.i].shape.k = "group" THEN [k |-> "EITHER"]    \* a group has no centre: statement silent
                              ELSE [k |-> "at", p |-> <<o.pred.occs[s.i].pose[1], o.pred.occs[s.i].pose[2]>>]
         [] OTHER -> IF SrcState(o, t).unc \in {"pos", "both"} THEN [k |-> "EITHER"]
                     ELSE [k |-> "at", p |-> <<SrcState(o, t).x, SrcState(o, t).y>>]
InIv(iv, v) == iv[1] <= v /\ v <= iv[2]                                      \* closed interval
PosVerdict(o, Ix, Iy, roles, t) ==
    IF o.role \notin roles THEN "F"
    ELSE LET c == Centre(o, t)
         IN CASE c.k = "None" -> "F" [] c.k = "EITHER" -> "EITHER"
              [] OTHER -> IF InIv(Ix, c.p[1]) /\ InIv(Iy, c.p[2]) THEN "T" ELSE "F"
ByPosition(S, Ix, Iy, roles, t)    == {o.id : o \in {p \in Range(S) : PosVerdict(p, Ix, Iy, roles, t) = "T"}}
ByPositionMay(S, Ix, Iy, roles, t) == {o.id : o \in {p \in Range(S) : PosVerdict(p, Ix, Iy, roles, t) # "F"}}
=================================================================================
