------------------------------ MODULE PolylineTopo ------------------------------
(* X02 (extended coverage) - polyline utilities (commonroad/geometry/polyline_util.py) and      *)
(* lanelet topology helpers (commonroad/scenario/lanelet.py), specified from their docstrings.   *)
(* Functional core.  No VARIABLES here.                                                          *)
(*                                                                                               *)
(* Domain: a point is <<x, y>> with integer coordinates; a polyline is a sequence of >= 2        *)
(* points whose segments have INTEGER length (axis-parallel or Pythagorean steps; length 0 =     *)
(* repeated vertex is a polyline too, "Proper" excludes it), so every cumulative length is an     *)
(* integer and every point at a rational arc length is an exact rational point.                   *)
(* A rational is <<num, den>>, den > 0.  A rational point coming from the implementation is       *)
(* <<xn, yn, den, exact>> (value (xn/den, yn/den); exact = 1 iff the floats were within 1e-9 of   *)
(* it).  A direction token is the primitive integer vector <<dx, dy>> whose atan2(dy, dx) is the  *)
(* angle (so k*pi/2 are <<1,0>>, <<0,1>>, <<-1,0>>, <<0,-1>> and a 3-4-5 step is <<3,4>>).        *)
(* Verdicts are "T" / "F" / "EITHER" (docstring silent or contradicted by the library's tests).   *)
EXTENDS Integers, Sequences, FiniteSets, TLC, Json

Abs(x) == IF x < 0 THEN -x ELSE x
Min(a, b) == IF a <= b THEN a ELSE b
Max(a, b) == IF a >= b THEN a ELSE b
Sgn(x) == IF x > 0 THEN 1 ELSE IF x < 0 THEN -1 ELSE 0
Last(s) == s[Len(s)]
Rev(s)  == [i \in 1..Len(s) |-> s[Len(s) + 1 - i]]
Range(s) == {s[i] : i \in DOMAIN s}
NoDups(s) == \A i, j \in DOMAIN s : i # j => s[i] # s[j]
Shift(poly, v) == [i \in 1..Len(poly) |-> <<poly[i][1] + v[1], poly[i][2] + v[2]>>]

(* ------------------------------ (1) path length ----------------------------------------- *)
SqLen(p, q) == (q[1] - p[1]) * (q[1] - p[1]) + (q[2] - p[2]) * (q[2] - p[2])
Manh(p, q)  == Abs(q[1] - p[1]) + Abs(q[2] - p[2])
HasIntLen(p, q) == \E k \in 0..Manh(p, q) : k * k = SqLen(p, q)
IntLen(p, q)    == CHOOSE k \in 0..Manh(p, q) : k * k = SqLen(p, q)
IntPoly(poly) == Len(poly) >= 2 /\ \A i \in 1..Len(poly) - 1 : HasIntLen(poly[i], poly[i + 1])
Proper(poly)  == IntPoly(poly) /\ \A i \in 1..Len(poly) - 1 : poly[i] # poly[i + 1]
SegLen(poly, i) == IntLen(poly[i], poly[i + 1])

(* "path lengths of a given polyline in steps travelled from initial to final coordinate" *)
RECURSIVE CumAt(_, _)
CumAt(poly, i) == IF i = 1 THEN 0 ELSE CumAt(poly, i - 1) + SegLen(poly, i - 1)
Cum(poly)      == [i \in 1..Len(poly) |-> CumAt(poly, i)]
RECURSIVE SumSegs(_, _)
SumSegs(poly, i) == IF i >= Len(poly) THEN 0 ELSE SegLen(poly, i) + SumSegs(poly, i + 1)
Length(poly)   == SumSegs(poly, 1)                     \* "the complete path length"

(* "Concatenates two polylines. The head represents the first part of the new polyline." *)
Concat(head, tail) == head \o tail

(* ------------------------------ (2) points at an arc length ------------------------------ *)
RatEq(a, b) == a[1] * b[2] = b[1] * a[2]
RatLe(a, b) == a[1] * b[2] <= b[1] * a[2]
(* segment i carries arc length sn/sd (Proper polylines only) *)
OnSegArc(poly, i, sn, sd) == sd * CumAt(poly, i) <= sn /\ sn <= sd * CumAt(poly, i + 1)
SegOf(poly, sn, sd) == CHOOSE i \in 1..Len(poly) - 1 : OnSegArc(poly, i, sn, sd)
(* the point at arc length sn/sd as <<xn, yn, den>> *)
PointAt(poly, sn, sd) ==
  LET i == SegOf(poly, sn, sd)  num == sn - sd * CumAt(poly, i)  den == sd * SegLen(poly, i)
  IN <<poly[i][1] * den + num * (poly[i + 1][1] - poly[i][1]),
       poly[i][2] * den + num * (poly[i + 1][2] - poly[i][2]), den>>
PtEq(P, Q)  == P[1] * Q[3] = Q[1] * P[3] /\ P[2] * Q[3] = Q[2] * P[3]     \* rational points <<xn, yn, den, ...>>
IntPt(v)    == <<v[1], v[2], 1>>
IntPts(poly) == [i \in 1..Len(poly) |-> IntPt(poly[i])]

(* "Resamples the given polyline with a fixed number of points": n points at equal arc-length spacing, *)
(* the first and the last vertex kept (the library's tests)                                             *)
ResampleNumber(poly, n) == [j \in 1..n |-> PointAt(poly, (j - 1) * Length(poly), n - 1)]
(* "Resamples the given polyline with a specific distance [d = dn/dd].  For a higher distance than the   *)
(* length of the given polyline the polyline is not resampled."  Points at 0, d, 2d, ... < length, then  *)
(* the last vertex.                                                                                      *)
CeilDiv(a, b) == (a + b - 1) \div b
ResampleDistance(poly, dn, dd) ==
  LET L == Length(poly) IN
  IF dn > dd * L THEN IntPts(poly)
  ELSE LET m == CeilDiv(L * dd, dn) IN
       [j \in 1..m + 1 |-> IF j = m + 1 THEN IntPt(Last(poly)) ELSE PointAt(poly, (j - 1) * dn, dd)]

(* ------------------------------ (3) exact predicates on integer points -------------------- *)
Cross(a, b, p) == (b[1] - a[1]) * (p[2] - a[2]) - (b[2] - a[2]) * (p[1] - a[1])
Dot(a, b, p)   == (p[1] - a[1]) * (b[1] - a[1]) + (p[2] - a[2]) * (b[2] - a[2])
(* p lies on the closed segment a-b ("the point is between the starting and ending point") *)
OnSeg(a, b, p) == IF a = b THEN p = a
                  ELSE Cross(a, b, p) = 0 /\ 0 <= Dot(a, b, p) /\ Dot(a, b, p) <= SqLen(a, b)
OnPoly(poly, p) == \E i \in 1..Len(poly) - 1 : OnSeg(poly[i], poly[i + 1], p)
(* the same for a rational point P = <<xn, yn, den, ...>> *)
CrossR(a, b, P) == (b[1] - a[1]) * (P[2] - a[2] * P[3]) - (b[2] - a[2]) * (P[1] - a[1] * P[3])
DotR(a, b, P)   == (P[1] - a[1] * P[3]) * (b[1] - a[1]) + (P[2] - a[2] * P[3]) * (b[2] - a[2])
OnSegR(a, b, P) == CrossR(a, b, P) = 0 /\ 0 <= DotR(a, b, P) /\ DotR(a, b, P) <= SqLen(a, b) * P[3]
OnPolyR(poly, P) == \E i \in 1..Len(poly) - 1 : OnSegR(poly[i], poly[i + 1], P)

(* closed segments a-b and c-d share a point *)
SegX(a, b, c, d) ==
  LET o1 == Sgn(Cross(a, b, c))  o2 == Sgn(Cross(a, b, d))
      o3 == Sgn(Cross(c, d, a))  o4 == Sgn(Cross(c, d, b))
  IN (o1 # o2 /\ o3 # o4) \/ OnSeg(a, b, c) \/ OnSeg(a, b, d) \/ OnSeg(c, d, a) \/ OnSeg(c, d, b)

(* how two non-degenerate segments meet: "none" | "point" (the lines cross in one point that lies on both) |      *)
(* "touch" (collinear, exactly one common point) | "overlap" (collinear, infinitely many common points)           *)
Det(a, b, c, d) == (b[1] - a[1]) * (d[2] - c[2]) - (b[2] - a[2]) * (d[1] - c[1])             \* r x s
PairKind(a, b, c, d) ==
  LET den == Det(a, b, c, d) IN
  IF den # 0 THEN
     LET tn == (c[1] - a[1]) * (d[2] - c[2]) - (c[2] - a[2]) * (d[1] - c[1])                   \* (c - a) x s
         un == (c[1] - a[1]) * (b[2] - a[2]) - (c[2] - a[2]) * (b[1] - a[1])                   \* (c - a) x r
     IN IF den > 0 THEN (IF 0 <= tn /\ tn <= den /\ 0 <= un /\ un <= den THEN "point" ELSE "none")
                   ELSE (IF den <= tn /\ tn <= 0 /\ den <= un /\ un <= 0 THEN "point" ELSE "none")
  ELSE IF Cross(a, b, c) # 0 THEN "none"                                                       \* parallel, apart
  ELSE LET tc == Dot(a, b, c)  td == Dot(a, b, d)
           lo == Max(0, Min(tc, td))  hi == Min(SqLen(a, b), Max(tc, td))
       IN IF lo > hi THEN "none" ELSE IF lo = hi THEN "touch" ELSE "overlap"
(* the single common point of a "point" / "touch" pair as <<xn, yn, den>>, den > 0 *)
PairPoint(a, b, c, d) ==
  LET den == Det(a, b, c, d) IN
  IF den # 0 THEN
     LET tn == (c[1] - a[1]) * (d[2] - c[2]) - (c[2] - a[2]) * (d[1] - c[1])
         s  == Sgn(den)
     IN <<s * (a[1] * den + tn * (b[1] - a[1])), s * (a[2] * den + tn * (b[2] - a[2])), s * den>>
  ELSE IF Max(0, Min(Dot(a, b, c), Dot(a, b, d))) = 0 THEN IntPt(a) ELSE IntPt(b)

Segs(poly) == 1..Len(poly) - 1
Kind(p1, i, p2, j)  == PairKind(p1[i], p1[i + 1], p2[j], p2[j + 1])
Point(p1, i, p2, j) == PairPoint(p1[i], p1[i + 1], p2[j], p2[j + 1])
(* "the intersection points of two polylines": the common point of every segment pair that has exactly one;    *)
(* where two segments overlap the common points are not a finite list: anything on them is accepted, nothing     *)
(* required                                                                                                       *)
MustPoints(p1, p2) == {Point(p1, i, p2, j) : <<i, j>> \in {ij \in Segs(p1) \X Segs(p2) :
                                                             Kind(p1, ij[1], p2, ij[2]) \in {"point", "touch"}}}
HasOverlap(p1, p2) == \E i \in Segs(p1), j \in Segs(p2) : Kind(p1, i, p2, j) = "overlap"
Polylines_Meet(p1, p2) == \E i \in Segs(p1), j \in Segs(p2) : SegX(p1[i], p1[i + 1], p2[j], p2[j + 1])
(* res: sequence of rational points reported by the implementation *)
Missed(p1, i, p2, j, res) == \A k \in DOMAIN res : ~PtEq(res[k], Point(p1, i, p2, j))
AtEnd(p1, i, p2, j) == \E V \in {p1[i], p1[i + 1], p2[j], p2[j + 1]} : PtEq(Point(p1, i, p2, j), IntPt(V))
IntersectionsClause(p1, p2, res) ==
  IF \E k \in DOMAIN res : res[k][4] # 1 THEN "inexact"
  ELSE IF ~HasOverlap(p1, p2) /\ \E k \in DOMAIN res : \A Q \in MustPoints(p1, p2) : ~PtEq(res[k], Q) THEN "spurious"
  ELSE IF \E i \in Segs(p1), j \in Segs(p2) : Kind(p1, i, p2, j) = "point" /\ ~AtEnd(p1, i, p2, j) /\ Missed(p1, i, p2, j, res)
       THEN "missed/interior"                              \* a crossing in the interior of both segments
  ELSE IF \E i \in Segs(p1), j \in Segs(p2) : Kind(p1, i, p2, j) = "point" /\ Missed(p1, i, p2, j, res)
       THEN "missed/at-segment-end"                        \* the common point is an end point of one of the two segments
  ELSE IF \E i \in Segs(p1), j \in Segs(p2) : Kind(p1, i, p2, j) = "touch" /\ Missed(p1, i, p2, j, res)
       THEN "missed/collinear-touch"                       \* collinear segments with exactly one common point
  ELSE ""
SameRatPoints(r1, r2) == /\ \A k \in DOMAIN r1 : \E m \in DOMAIN r2 : PtEq(r1[k], r2[m])
                         /\ \A m \in DOMAIN r2 : \E k \in DOMAIN r1 : PtEq(r1[k], r2[m])

(* "whether the given polyline contains self-intersection.  Intersection at boundary points are considered as   *)
(* self-intersection."  T: two consecutive segments fold back onto each other, or two non-consecutive segments    *)
(* share a point.  A closed polyline whose only contact is first vertex = last vertex: the docstring says T, the  *)
(* library's own test says F -> EITHER.  Repeated consecutive vertices: docstring silent -> EITHER.               *)
FoldsBack(poly, i) == Cross(poly[i], poly[i + 1], poly[i + 2]) = 0 /\ Dot(poly[i + 1], poly[i], poly[i + 2]) > 0
ClosureOnly(poly, i, j) ==
  /\ i = 1 /\ j = Len(poly) - 1 /\ poly[1] = Last(poly)
  /\ Kind(poly, i, poly, j) \in {"point", "touch"} /\ PtEq(Point(poly, i, poly, j), IntPt(poly[1]))
SelfX(poly) ==
  IF ~Proper(poly) THEN "EITHER"
  ELSE IF \E i \in 1..Len(poly) - 2 : FoldsBack(poly, i) THEN "T"
  ELSE IF \E i, j \in Segs(poly) : j >= i + 2 /\ SegX(poly[i], poly[i + 1], poly[j], poly[j + 1])
                                   /\ ~ClosureOnly(poly, i, j) THEN "T"
  ELSE IF Len(poly) >= 4 /\ poly[1] = Last(poly) THEN "EITHER"
  ELSE "F"

(* "Compares two polylines for equality.  For equality of the values a threshold can be given."               *)
(* Coordinates and differences are k/sc; th = thn/thd (thn = 0 stands for the tiny default 1e-10).  T: every     *)
(* difference is below the threshold; F: some difference exceeds threshold * (1 + |value|) (absolute and relative  *)
(* reading of "threshold"); in between the docstring does not decide.  Different vertex counts: not equal.         *)
EqVerdict(p1, p2, sc, thn, thd) ==
  IF Len(p1) # Len(p2) THEN "F"
  ELSE LET D(i, c) == Abs(p1[i][c] - p2[i][c])
           M(i, c) == Max(Abs(p1[i][c]), Abs(p2[i][c]))
           I == (1..Len(p1)) \X {1, 2}
       IN IF \A ic \in I : D(ic[1], ic[2]) = 0 THEN "T"
          ELSE IF \A ic \in I : D(ic[1], ic[2]) * thd < thn * sc THEN "T"
          ELSE IF \E ic \in I : D(ic[1], ic[2]) * thd * sc > thn * (sc + M(ic[1], ic[2])) * sc THEN "F"
          ELSE "EITHER"

(* direction token t of the step p -> q *)
DirOK(t, p, q) == LET dx == q[1] - p[1]  dy == q[2] - p[2]
                  IN t[1] * dy - t[2] * dx = 0 /\ t[1] * dx + t[2] * dy > 0
(* "orientation of a given polyline travelled from initial to final coordinate.  The orientation of the last     *)
(* coordinate is always assigned with the computed orientation of the penultimate one."                           *)
OrientationsClause(poly, res) ==
  IF Len(res) # Len(poly) THEN "count"
  ELSE IF \E i \in 1..Len(poly) - 1 : poly[i] # poly[i + 1] /\ ~DirOK(res[i], poly[i], poly[i + 1]) THEN "value"
  ELSE IF res[Len(poly)] # res[Len(poly) - 1] THEN "last"
  ELSE ""

(* "Inserts vertices into a polyline to be of the same length than other polyline": the result has as many        *)
(* vertices as the long polyline, the vertices of the short polyline are kept in order and every inserted vertex   *)
(* lies on the short polyline between its neighbours (the polyline as a curve is unchanged).                       *)
(* Walk: i = index of the last vertex of `short` seen, (dn, dd) = parameter dot/den reached on segment i.          *)
RECURSIVE EqWalk(_, _, _, _, _, _)
EqWalk(short, res, j, i, dn, dd) ==
  IF j > Len(res) THEN (IF i = Len(short) THEN "" ELSE "keeps")
  ELSE LET P == res[j] IN
       IF i >= Len(short) THEN "on-polyline"
       ELSE IF PtEq(P, IntPt(short[i + 1])) THEN EqWalk(short, res, j + 1, i + 1, 0, 1)
       ELSE IF OnSegR(short[i], short[i + 1], P) /\ dn * P[3] <= DotR(short[i], short[i + 1], P) * dd
            THEN EqWalk(short, res, j + 1, i, DotR(short[i], short[i + 1], P), P[3])
       ELSE "on-polyline"
EqualizeClause(long, short, res) ==
  IF \E k \in DOMAIN res : res[k][4] # 1 THEN "inexact"
  ELSE IF Len(res) # Len(long) THEN "count"
  ELSE IF ~PtEq(res[1], IntPt(short[1])) THEN "keeps"
  ELSE EqWalk(short, res, 2, 1, 0, 1)

Collinear(poly) == \A i \in 1..Len(poly) : Cross(poly[1], poly[2], poly[i]) = 0
(* a straight polyline: collinear and always moving on in the same direction (its curvature is 0 everywhere) *)
Straight(poly)  == Proper(poly) /\ Collinear(poly) /\ \A i \in 1..Len(poly) - 2 : Dot(poly[i + 1], poly[i + 2], poly[i]) < 0

(* ------------------------------ (4) lanelet topology helpers ------------------------------ *)
(* add_predecessor / add_successor: "Adds the ID ... to the list"; remove_*: "Removes the ID ... from the list" *)
Without(s, x) == SelectSeq(s, LAMBDA y : y # x)
Count(s, x)   == Cardinality({i \in DOMAIN s : s[i] = x})
Add(s, x)     == IF x \in Range(s) THEN s ELSE Append(s, x)
Remove(s, x)  == Without(s, x)
(* post is an admissible result of adding / removing x to / from pre: the other ids are untouched (and keep their   *)
(* order), x is there exactly once / not at all                                                                    *)
AddOK(pre, x, post)    == Without(post, x) = Without(pre, x) /\ Count(post, x) = 1
RemoveOK(pre, x, post) == Without(post, x) = Without(pre, x) /\ Count(post, x) = 0

(* find_*_by_id: "The ... object if the id exists and None otherwise"; res = <<found, id, same object>> *)
FindRes(ids, q) == IF q \in ids THEN <<1, q, 1>> ELSE <<0, 0, 0>>
(* get_traffic_sign(_lights)_referenced_lanelets: "the lanelets which have a reference to the given id";           *)
(* refs: sequence of <<lanelet id, sequence of referenced ids>>                                                    *)
RefLanelets(refs, q) == {refs[k][1] : k \in {k \in DOMAIN refs : q \in Range(refs[k][2])}}
(* map_inc_lanelets_to_intersections: "maps lanelet ids to the intersection of which it is an incoming lanelet";   *)
(* inters: sequence of <<intersection id, sequence of incoming-lanelet sequences>>                                 *)
IncLanelets(x) == UNION {Range(x[2][k]) : k \in DOMAIN x[2]}
IncDomain(inters) == UNION {IncLanelets(inters[k]) : k \in DOMAIN inters}
IncMapClause(inters, res) ==          \* res: sequence of <<lanelet id, intersection id>>
  IF {res[k][1] : k \in DOMAIN res} # IncDomain(inters) THEN "domain"
  ELSE IF ~NoDups([k \in DOMAIN res |-> res[k][1]]) THEN "duplicate"
  ELSE IF \E k \in DOMAIN res : ~\E m \in DOMAIN inters : inters[m][1] = res[k][2] /\ res[k][1] \in IncLanelets(inters[m])
       THEN "value"
  ELSE ""

(* ---- disc / polygon (lanelets_in_proximity: "all lanelets which intersect a given circle") ---- *)
Nxt(P, i) == IF i = Len(P) THEN P[1] ELSE P[i + 1]
Crosses(a, b, p) == (a[2] > p[2]) # (b[2] > p[2]) /\
                    LET d == b[2] - a[2]  lhs == (p[1] - a[1]) * d  rhs == (b[1] - a[1]) * (p[2] - a[2])
                    IN IF d > 0 THEN lhs < rhs ELSE lhs > rhs
Contains(P, p) == (\E i \in 1..Len(P) : OnSeg(P[i], Nxt(P, i), p))
                  \/ Cardinality({i \in 1..Len(P) : Crosses(P[i], Nxt(P, i), p)}) % 2 = 1
(* squared distance of p to the closed segment a-b as a rational *)
SegD(a, b, p) == IF a = b \/ Dot(a, b, p) <= 0 THEN <<SqLen(a, p), 1>>
                 ELSE IF Dot(a, b, p) >= SqLen(a, b) THEN <<SqLen(b, p), 1>>
                 ELSE <<Cross(a, b, p) * Cross(a, b, p), SqLen(a, b)>>
(* the closed disc (p, radius r) against polygon P: "in" = meets with room, "on" = touches exactly, "out" *)
DiscPoly(P, p, r) ==
  LET r2 == <<r * r, 1>> IN
  IF Contains(P, p) THEN "in"
  ELSE IF \E i \in 1..Len(P) : ~RatLe(r2, SegD(P[i], Nxt(P, i), p)) THEN "in"
  ELSE IF \E i \in 1..Len(P) : RatEq(r2, SegD(P[i], Nxt(P, i), p)) THEN "on"
  ELSE "out"
LanePolygon(left, right) == left \o Rev(right)
VertexWithin(c, p, r) == \E i \in DOMAIN c : SqLen(c[i], p) <= r * r
(* lanes: sequence of [id, l, c, r]; verdict per lane *)
ProxVerdict(lane, p, r) == LET k == DiscPoly(LanePolygon(lane.l, lane.r), p, r)
                           IN IF k = "in" THEN "T" ELSE IF k = "on" THEN "EITHER" ELSE "F"
ProximityClause(lanes, p, r, res) ==
  IF ~NoDups(res) THEN "duplicate"
  ELSE IF \E k \in DOMAIN res : \A m \in DOMAIN lanes : lanes[m].id = res[k] => ProxVerdict(lanes[m], p, r) = "F"
       THEN "spurious"
  ELSE IF \E m \in DOMAIN lanes : ProxVerdict(lanes[m], p, r) = "T" /\ lanes[m].id \notin Range(res)
                                  /\ VertexWithin(lanes[m].c, p, r) THEN "missed/vertex-in-radius"
  ELSE IF \E m \in DOMAIN lanes : ProxVerdict(lanes[m], p, r) = "T" /\ lanes[m].id \notin Range(res)
       THEN "missed/polygon-only"
  ELSE ""

(* ---- orientation_by_position: "lanelet orientation closest to a given position" ---- *)
NearestSegs(c, p) == {i \in Segs(c) : \A j \in Segs(c) : RatLe(SegD(c[i], c[i + 1], p), SegD(c[j], c[j + 1], p))}
InExtent(c, p) == Dot(c[1], c[2], p) >= 0 /\ Dot(Last(c), c[Len(c) - 1], p) >= 0
OrientationAtOK(c, p, t) == \E i \in NearestSegs(c, p) : DirOK(t, c[i], c[i + 1])
=================================================================================
