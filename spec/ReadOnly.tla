--------------------------------- MODULE ReadOnly ---------------------------------
(* C18 - read-only operations do not change scenarios or planning problems.                       *)
(* The contract is a frame condition: every operation of the alphabet below leaves the            *)
(* observable snapshot unchanged.  What makes it checkable is the ARCHETYPE space: the features   *)
(* of a scenario / planning-problem set on which side effects of "read-only" code are             *)
(* conditional, and the ORDER of operations (the first occupancy query is the one that fills      *)
(* caches and may mutate).                                                                        *)
EXTENDS Integers, Sequences, FiniteSets, TLC

Features ==
    { "custom_no_orientation",   \* trajectory states of a class without an orientation attribute (vx, vy only)
      "point_mass",              \* PMState trajectories (orientation is a derived property)
      "goal_defaultdict",        \* planning problems read from XML: goal-lanelet table is a default dictionary
      "goal_partial_lanelets",   \* only some goal states have goal lanelets
      "set_based",               \* set-based prediction + phantom obstacle
      "uncertain",               \* uncertain initial position / orientation
      "defaults",                \* obstacles / signs / lights built with default optional arguments
      "environment" }            \* environment obstacle
Ops ==
    { "occupancy", "state", "scenario_queries", "lanelet_lookup", "lanelet_geometry", "light", "is_reached",
      "goal_reached", "eq", "hash", "deepcopy", "pickle", "draw", "draw_render", "write_xml", "write_pb",
      \* copying is read-only for the ORIGINAL also when the copy is edited afterwards (copy independence):
      \* the copy is made, then moved / given a new sign on a lanelet / stripped of a sign, an obstacle, a lanelet
      "edit_deepcopy", "edit_pickle", "edit_network_copy", "edit_network_from_list" }

(* observable snapshot of the model: which optional pieces of data exist.  Side effects known to  *)
(* be possible in an implementation are modelled as named deviations so that TLC shows the frame  *)
(* condition is violated exactly by them.                                                         *)
Snap0(arch) == [orientationAttr |-> FALSE,                      \* custom states carry an orientation attribute
                goalKeys |-> IF "goal_partial_lanelets" \in arch THEN {0} ELSE {0, 1},
                shared |-> FALSE]                               \* a sub-object of a lanelet was changed through a copy
Effect(dev, arch, warm, op, s) ==
    CASE dev.occAddsOrientation /\ op \in {"occupancy", "scenario_queries", "draw", "draw_render"}
              /\ "custom_no_orientation" \in arch /\ "occ" \notin warm
           -> [s EXCEPT !.orientationAttr = TRUE]
      [] dev.pbWriteTouchesDefaultdict /\ op = "write_pb" /\ "goal_defaultdict" \in arch
           -> [s EXCEPT !.goalKeys = {0, 1}]
      [] dev.networkCopyShallow /\ op = "edit_network_copy"
           -> [s EXCEPT !.shared = TRUE]
      [] OTHER -> s
Warm(warm, op) == IF op \in {"occupancy", "scenario_queries", "draw", "draw_render"} THEN warm \cup {"occ"} ELSE warm
===================================================================================
