--------------------------------- MODULE Render ---------------------------------
(* C19 - rendering is total and shows the model at the selected time.               *)
(* Functional core (no variables), three parts, written from the statement:         *)
(*  (1) the draw-parameter tree: Set(node, field, v) reaches every descendant that  *)
(*      declares the field and nothing else;                                        *)
(*  (2) the time window: which (obstacle, time) occupancies must be / may be / must *)
(*      not be among the drawn obstacle shapes, and which lanelets are drawn;       *)
(*  (3) totality: the archetype / window / flag vocabulary of the draw+render runs. *)
(* The class table (ClassTable, RootClass) lives in the GENERATED module RenderTree *)
(* (harness: `python -m crv.props.c19 --regen`); the check re-generates it from     *)
(* dataclasses.fields of the real classes and reports a difference as SPEC-DRIFT.   *)
EXTENDS Integers, Sequences, FiniteSets, TLC, Json, RenderTree

Range(s) == {s[i] : i \in DOMAIN s}

(* =============================== (1) parameter tree =============================== *)
(* A node is the path of child-field names from the root parameter group (<<>>).     *)
Kids(c)      == ClassTable[c].kids                 \* sequence of <<child field name, class of the child>>
ScalarsOf(c) == ClassTable[c].fields               \* declared, public, non-group fields (inherited ones included)

RECURSIVE NodesFrom(_, _)
NodesFrom(c, path) == {path} \cup UNION {NodesFrom(k[2], Append(path, k[1])) : k \in Range(Kids(c))}
Nodes == NodesFrom(RootClass, <<>>)

RECURSIVE ClassFrom(_, _, _)
ClassFrom(c, path, i) == IF i > Len(path) THEN c
                         ELSE ClassFrom((CHOOSE k \in Range(Kids(c)) : k[1] = path[i])[2], path, i + 1)
NodeClass == [n \in Nodes |-> ClassFrom(RootClass, n, 1)]         \* constant: evaluated once

Declares(n, f)  == f \in ScalarsOf(NodeClass[n])
IsPrefix(p, q)  == Len(p) <= Len(q) /\ \A i \in 1..Len(p) : p[i] = q[i]
AllScalars      == UNION {ScalarsOf(c) : c \in DOMAIN ClassTable}
Declaring       == [f \in AllScalars |-> {n \in Nodes : Declares(n, f)}]   \* constant
(* the nodes a Set(n, f, _) must reach: n itself and every nested group, if they declare f *)
Targets(n, f)   == IF f \in AllScalars THEN {m \in Declaring[f] : IsPrefix(n, m)} ELSE {}

(* a valuation maps <<node, field>> to a value token, for the fields of interest F *)
Pairs(F)        == UNION {{<<n, f>> : n \in Declaring[f]} : f \in F \cap AllScalars}
SetOp(val, n, f, v) == LET T == Targets(n, f) IN [p \in DOMAIN val |-> IF p[2] = f /\ p[1] \in T THEN v ELSE val[p]]
(* the contract as a predicate over a pre- and a post-valuation *)
SetReached(new, n, f, v)      == \A m \in Targets(n, f) : <<m, f>> \in DOMAIN new => new[<<m, f>>] = v
SetFrame(old, new, n, f)      == LET T == Targets(n, f) IN \A p \in DOMAIN old : (p[2] # f \/ p[1] \notin T) => new[p] = old[p]
SetPost(old, new, n, f, v)    == DOMAIN new = DOMAIN old /\ SetReached(new, n, f, v) /\ SetFrame(old, new, n, f)
(* laws (checked by TLC in MC_Render) *)
Idempotent(val, n, f, v)               == SetOp(SetOp(val, n, f, v), n, f, v) = SetOp(val, n, f, v)
Commute(val, n1, f1, v1, n2, f2, v2)   == f1 # f2 => SetOp(SetOp(val, n1, f1, v1), n2, f2, v2) = SetOp(SetOp(val, n2, f2, v2), n1, f1, v1)
RootReaches(val, f, v)                 == \A m \in Declaring[f] : <<m, f>> \in DOMAIN val => SetOp(val, <<>>, f, v)[<<m, f>>] = v

(* ---- Replace(node, child): a freshly constructed group of the slot's class is assigned to node.child -------------
   The statement only speaks about a LATER Set: after any Set(a, f, v) every CURRENT descendant of a declaring f holds
   v (SetReached on the current tree - since the new group has the class of the slot, the paths below it are the
   same as before).  What the new group holds before the next Set is not promised anywhere (BaseParam.__setattr__ has
   no docstring; the only comment, in __post_init__, promises propagation of time_begin / time_end / antialiased
   when a group is CONSTRUCTED): EITHER what it was built with or the value the parent group holds for that field.
   The assignment itself is an instance of "setting a parameter": nested groups declaring a child of the same name
   may receive the same object (EITHER band, AliasSlots); Set histories are only continued for clean slots. *)
KidNames(c)     == {k[1] : k \in Range(Kids(c))}
Slots           == UNION {{<<n, k>> : k \in KidNames(NodeClass[n])} : n \in Nodes}
SlotPath(n, k)  == Append(n, k)
SlotClass(n, k) == NodeClass[Append(n, k)]
AliasSlots(n, k) == {Append(m, k) : m \in {d \in Nodes : IsPrefix(n, d) /\ d # n /\ k \in KidNames(NodeClass[d])}}
CleanSlot(n, k) == AliasSlots(n, k) = {}
(* on a valuation: inh = the new group takes the parent's values where the parent declares the field *)
ReplaceOp(val, n, k, inh) == LET r == Append(n, k) IN
    [p \in DOMAIN val |-> IF IsPrefix(r, p[1]) THEN (IF inh /\ <<n, p[2]>> \in DOMAIN val THEN val[<<n, p[2]>>] ELSE "built")
                           ELSE val[p]]
ReplaceFrame(old, new, n, k)  == LET r == Append(n, k) IN \A p \in DOMAIN old : ~IsPrefix(r, p[1]) => new[p] = old[p]
ReplaceInside(old, new, n, k) == LET r == Append(n, k) IN \A p \in DOMAIN old : IsPrefix(r, p[1]) =>
                                     new[p] \in {"built"} \cup (IF <<n, p[2]>> \in DOMAIN old THEN {old[<<n, p[2]>>]} ELSE {})
ReplacePost(old, new, n, k)   == DOMAIN new = DOMAIN old /\ ReplaceFrame(old, new, n, k) /\ ReplaceInside(old, new, n, k)
(* trace side of a real Replace:
   aliases : [path, ...]                 other slots that hold the very same new object afterwards
   changed : [[path, field], ...]        every (node path, public scalar) whose value differs before/after
   differs : [[relative path, field, token], ...]  entries of the new group that differ from what it was built with
   pvals   : [[field, token], ...]       the scalar values of `node` itself after the assignment *)
BadAliases(n, k, aliases)             == Range(aliases) \ AliasSlots(n, k)
ReplaceClobbered(n, k, changed, aliases) == LET r == Append(n, k) IN
    {c \in Range(changed) : ~IsPrefix(r, c[1]) /\ ~\E al \in Range(aliases) : IsPrefix(al, c[1])}
Garbled(differs, pvals)               == {d \in Range(differs) : ~\E x \in Range(pvals) : x[1] = d[2] /\ x[2] = d[3]}

(* ---- save -> load round trip: parameters set in memory and parameters loaded from a file must be the same ----------
   (values AND types: a list-valued id filter must come back as a list).  Loading constructs the groups anew, and the
   constructor propagates the three base parameters of the root to every nested group (the only documented promise,
   BaseParam.__post_init__): a base parameter that differs between a nested group and the root is an EITHER band. *)
BaseFields    == {"time_begin", "time_end", "antialiased"}
LoadOp(val)   == [p \in DOMAIN val |-> IF p[2] \in BaseFields /\ <<<<>>, p[2]>> \in DOMAIN val THEN val[<<<<>>, p[2]>>] ELSE val[p]]
RoundtripBand(m, f)         == f \in BaseFields /\ m # <<>>
RoundtripChanged(changed)   == {c \in Range(changed) : ~RoundtripBand(c[1], c[2])}

(* --- what the trace of a real Set is checked against (diff-encoded observation) ---
   vals    : [[path, value token], ...]  value of `field` at every real node that has it after the Set
   changed : [[path, field name], ...]   every (node, public non-group attribute) whose value differs before/after *)
ValAt(vals, m)  == IF \E i \in DOMAIN vals : vals[i][1] = m THEN (CHOOSE x \in Range(vals) : x[1] = m)[2] ELSE "<absent>"
Missed(n, f, v, vals)     == {m \in Targets(n, f) : ValAt(vals, m) # v}
Clobbered(n, f, changed)  == LET T == Targets(n, f) IN {c \in Range(changed) : ~(c[2] = f /\ c[1] \in T)}

(* =============================== (2) time window ================================= *)
CONSTANTS TMax          \* largest time step looked at (windows and occupancy probes live in 0..TMax)
Kinds == {"static", "env", "dyn-none", "dyn-traj", "dyn-set", "phantom-set"}
(* obstacle descriptor [id, kind, t0, n]: initial time t0; n predicted steps t0+1..t0+n (dynamic) resp. t0..t0+n-1 (phantom) *)
Descriptors == [kind : {"static"}, t0 : 0..2, n : {0}] \cup [kind : {"env"}, t0 : {0}, n : {0}]
          \cup [kind : {"dyn-none"}, t0 : 0..2, n : {0}]
          \cup [kind : {"dyn-traj", "dyn-set", "phantom-set"}, t0 : 0..2, n : 1..3]
SetBased(o)      == o.kind \in {"dyn-set", "phantom-set"}
TimeInvariant(o) == o.kind \in {"static", "env"}
(* the model's answer `occupancy_at_time(t) is not None`, from the descriptor (C04's Source) *)
HasOcc(o, t) == CASE o.kind \in {"static", "env"}        -> TRUE
                  [] o.kind = "dyn-none"                 -> t = o.t0
                  [] o.kind \in {"dyn-traj", "dyn-set"}  -> o.t0 <= t /\ t <= o.t0 + o.n
                  [] o.kind = "phantom-set"              -> o.t0 <= t /\ t <= o.t0 + o.n - 1
First(o) == IF TimeInvariant(o) THEN 0 ELSE o.t0
Last(o)  == CASE o.kind \in {"dyn-traj", "dyn-set"} -> o.t0 + o.n [] o.kind = "phantom-set" -> o.t0 + o.n - 1
              [] o.kind = "dyn-none" -> o.t0 [] OTHER -> TMax + 1
(* Is the occupancy of o at time t among the obstacle shapes drawn for the window [b, e]?  occ(o, t) = the model has one.
   "T" must be drawn, "F" must not, "EITHER": t = time_end (documentation says `last time step`, the code excludes it). *)
Verdict(has, o, t, b, e) ==                     \* has = the model reports an occupancy of o at t
    IF ~has THEN "F"
    ELSE IF t = b THEN "T"
    ELSE IF SetBased(o) /\ b < t /\ t < e THEN "T"
    ELSE IF SetBased(o) /\ b < t /\ t = e THEN "EITHER"
    ELSE "F"
DrawnMust(o, b, e) == {t \in 0..TMax : Verdict(HasOcc(o, t), o, t, b, e) = "T"}
DrawnMay(o, b, e)  == {t \in 0..TMax : Verdict(HasOcc(o, t), o, t, b, e) \in {"T", "EITHER"}}
(* gamma puts the occupancy of obstacle id at time t into lattice cell <<id, Col(o, t)>> *)
Col(o, t) == IF TimeInvariant(o) THEN 0 ELSE t
(* lanelets: all of the network, or exactly the selected ones *)
LaneletsExpected(net, filter, ids) == IF filter = 0 THEN net ELSE net \cap ids

(* --- trace side: e.obs descriptors (with id), e.b/e.e window, e.occ = [[id, t], ...] what the model reports,
       e.drawn = [[id, col], ...] cells in which an obstacle patch was collected --- *)
OccSet(e)       == {<<x[1], x[2]>> : x \in Range(e.occ)}
GammaOcc(e)     == UNION {{<<o.id, t>> : t \in {u \in 0..TMax : HasOcc(o, u)}} : o \in Range(e.obs)}
DrawnCells(e)   == {<<x[1], x[2]>> : x \in Range(e.drawn)}
CellsWith(e, V) == UNION {{<<o.id, Col(o, t)>> : t \in {u \in 0..TMax : Verdict(<<o.id, u>> \in OccSet(e), o, u, e.b, e.e) \in V}}
                          : o \in Range(e.obs)}
MissingCells(e) == CellsWith(e, {"T"}) \ DrawnCells(e)
ExtraCells(e)   == DrawnCells(e) \ CellsWith(e, {"T", "EITHER"})
EitherCells(e)  == CellsWith(e, {"EITHER"}) \ CellsWith(e, {"T"})

(* ------------------------------ (2c) frame sequences ----------------------------- *)
(* The video loop on ONE renderer: draw + render_static once, then rounds remove_dynamic; clear; draw with the window     *)
(* <<b + i, e + i>>; render_dynamic (i = 0..k), finally a full render().  After EVERY round the obstacle shapes visible  *)
(* on the axes are exactly what a single draw of that round's window shows - Verdict / CellsWith of that window, no     *)
(* state of an earlier round: a shape of an earlier time step that the current window does not allow is a ghost.        *)
FrameWindow(b, e, i) == <<b + i, e + i>>
Ghosts(o, b, e)      == {t \in DrawnMay(o, b, e) : t \notin DrawnMay(o, b + 1, e + 1)}     \* must disappear in the next round

(* ------------------------------ (2b) traffic lights ------------------------------ *)
(* A light [cyc, off, active]: cycle of [d |-> duration, c |-> colour] elements (TrafficLight.tla, C17), time offset,  *)
(* active = 0 for a light that is switched off.  What the light's own artist shows at the selected begin time step:  *)
(* the colour of the cycle at time_begin, "inactive" for a switched-off light.  Lanelets do not depend on lights:     *)
(* every lanelet to be drawn yields all its parts (area fill, left / right bound, direction arrow under the          *)
(* default lanelet flags) at every time_begin, whatever the state of the light governing it.  (The colour of the      *)
(* centre-line overlay of governed lanelets is not constrained: for a switched-off light the code follows the cycle.) *)
LightColors  == {"red", "redYellow", "yellow", "green", "inactive"}
TL == INSTANCE TrafficLight WITH MaxElems <- 5, MaxDur <- 3, MaxOff <- 3, Colors <- LightColors, Periods <- 1
LightCycles  == { << [d |-> 1, c |-> "red"], [d |-> 1, c |-> "redYellow"], [d |-> 2, c |-> "green"], [d |-> 1, c |-> "yellow"],
                     [d |-> 2, c |-> "inactive"] >>,
                  << [d |-> 2, c |-> "inactive"], [d |-> 1, c |-> "green"] >>,
                  << [d |-> 3, c |-> "inactive"] >>,
                  << [d |-> 2, c |-> "green"], [d |-> 2, c |-> "red"] >> }
LightConfigs == [cyc : LightCycles, off : {0, 2, 3}, active : {0, 1}]
LightShown(l, t) == IF l.active = 0 THEN "inactive" ELSE TL!StateAt(l.cyc, l.off, t)
ValidLight(l) == /\ l.active \in {0, 1} /\ l.off \in 0..20 /\ Len(l.cyc) >= 1
                 /\ \A i \in DOMAIN l.cyc : l.cyc[i].d \in 1..20 /\ l.cyc[i].c \in LightColors
(* default lanelet flags, lanelet without neighbours.  The centre bound is observed ("center") but NOT required: the
   statement does not name it, and the code only draws it with unique_colors / colormap_tangent although
   draw_center_bound defaults to True (reported as an observation, not asserted). *)
LaneletParts == {"fill", "left", "right", "arrow"}
(* trace side: e.lights = descriptors with id, e.t = time_begin, e.shown = [[id, colour token of the artist], ...] *)
LightsMissing(e) == {l.id : l \in Range(e.lights)} \ {x[1] : x \in Range(e.shown)}
LightsExtra(e)   == {x[1] : x \in Range(e.shown)} \ {l.id : l \in Range(e.lights)}
LightsWrong(e)   == {l.id : l \in {k \in Range(e.lights) : \E x \in Range(e.shown) : x[1] = k.id /\ x[2] # LightShown(k, e.t)}}
PartsMissing(want, parts) == {<<l, q>> : l \in want, q \in LaneletParts} \ {<<x[1], x[2]>> : x \in Range(parts)}

(* =============================== (3) totality ===================================== *)
Archetypes == {"plain", "point-mass", "custom-state", "no-orientation", "uncertain-position", "uncertain-orientation", "defaults", "interval-sets",
               "goals", "goal-no-position", "signs-lights", "signs-inside", "lights-inactive", "light-no-cycle", "empty"}
(* where the camera looks (signs and lights inside / outside the plot area), what is handed to the renderer, and how
   the parameters reached it *)
Views       == {"auto", "limits-include", "limits-exclude", "focus-include", "focus-exclude"}
DrawTargets == {"scenario", "network", "objects"}
Routes      == {"memory", "file"}
Windows    == {"before", "at-start", "inside", "point", "default", "after"}    \* relative to the horizons 1..4 of the archetypes
WindowOf(w) == CASE w = "before" -> <<0, 0>> [] w = "at-start" -> <<0, 3>> [] w = "inside" -> <<2, 4>> [] w = "point" -> <<2, 2>>
                 [] w = "default" -> <<0, 200>> [] w = "after" -> <<7, 9>>
=================================================================================
