------------------------------- MODULE RenderTree -------------------------------
(* GENERATED from commonroad/visualization/draw_params.py by `python -m crv.props.c19 --regen` *)
(* (harness/crv/props/c19.py: tree_dump / tree_tla).  DO NOT EDIT; the C19 check re-generates *)
(* this text from dataclasses.fields of the real classes and compares (SPEC-DRIFT).           *)
(* fields = declared public non-group fields (inherited included); kids = nested groups.      *)
RootClass == "MPDrawParams"
ClassTable == [
  ArrowParams |->
    [fields |-> {"antialiased", "edgecolor", "facecolor", "linewidth", "time_begin", "time_end", "width"},
     kids |-> <<>>],
  DynamicObstacleParams |->
    [fields |-> {"antialiased", "draw_bounding_box", "draw_direction", "draw_icon", "draw_initial_state", "draw_shape", "draw_signals", "opacity", "show_label", "time_begin", "time_end", "zorder"},
     kids |-> <<<<"vehicle_shape", "VehicleShapeParams">>, <<"signals", "VehicleSignalParams">>, <<"state", "StateParams">>, <<"history", "HistoryParams">>, <<"occupancy", "OccupancyParams">>, <<"trajectory", "TrajectoryParams">>>>],
  EnvironmentObstacleParams |->
    [fields |-> {"antialiased", "time_begin", "time_end"},
     kids |-> <<<<"occupancy", "OccupancyParams">>>>],
  HistoryParams |->
    [fields |-> {"antialiased", "basecolor", "draw_history", "fade_color", "step_size", "steps", "time_begin", "time_end"},
     kids |-> <<<<"occupancy", "ShapeParams">>>>],
  InitialStateParams |->
    [fields |-> {"antialiased", "label", "label_zorder", "time_begin", "time_end"},
     kids |-> <<<<"state", "StateParams">>>>],
  IntersectionParams |->
    [fields |-> {"antialiased", "crossings_color", "draw_crossings", "draw_incoming_lanelets", "draw_intersections", "draw_successors", "incoming_lanelets_color", "show_label", "successors_left_color", "successors_right_color", "successors_straight_color", "time_begin", "time_end"},
     kids |-> <<>>],
  LaneletNetworkParams |->
    [fields |-> {"antialiased", "draw_ids", "kwargs_traffic_light_signs", "relative_angle", "time_begin", "time_end"},
     kids |-> <<<<"lanelet", "LaneletParams">>, <<"intersection", "IntersectionParams">>, <<"traffic_sign", "TrafficSignParams">>, <<"traffic_light", "TrafficLightParams">>>>],
  LaneletParams |->
    [fields |-> {"antialiased", "center_bound_color", "colormap_tangent", "draw_border_vertices", "draw_center_bound", "draw_left_bound", "draw_line_markings", "draw_linewidth", "draw_right_bound", "draw_start_and_direction", "draw_stop_line", "facecolor", "fill_lanelet", "left_bound_color", "right_bound_color", "show_label", "stop_line_color", "time_begin", "time_end", "unique_colors", "zorder"},
     kids |-> <<>>],
  MPDrawParams |->
    [fields |-> {"antialiased", "axis_visible", "time_begin", "time_end"},
     kids |-> <<<<"shape", "ShapeParams">>, <<"dynamic_obstacle", "DynamicObstacleParams">>, <<"static_obstacle", "StaticObstacleParams">>, <<"phantom_obstacle", "PhantomObstacleParams">>, <<"environment_obstacle", "EnvironmentObstacleParams">>, <<"trajectory", "TrajectoryParams">>, <<"lanelet_network", "LaneletNetworkParams">>, <<"traffic_light", "TrafficLightParams">>, <<"traffic_sign", "TrafficSignParams">>, <<"occupancy", "OccupancyParams">>, <<"state", "StateParams">>, <<"planning_problem", "PlanningProblemParams">>, <<"planning_problem_set", "PlanningProblemSetParams">>, <<"initial_state", "InitialStateParams">>, <<"goal_region", "OccupancyParams">>>>],
  OccupancyParams |->
    [fields |-> {"antialiased", "draw_occupancies", "time_begin", "time_end"},
     kids |-> <<<<"shape", "ShapeParams">>, <<"uncertain_position", "ShapeParams">>>>],
  PhantomObstacleParams |->
    [fields |-> {"antialiased", "draw_bounding_box", "draw_direction", "draw_icon", "draw_initial_state", "draw_shape", "draw_signals", "show_label", "time_begin", "time_end", "zorder"},
     kids |-> <<<<"vehicle_shape", "VehicleShapeParams">>, <<"signals", "VehicleSignalParams">>, <<"state", "StateParams">>, <<"history", "HistoryParams">>, <<"occupancy", "OccupancyParams">>, <<"trajectory", "TrajectoryParams">>>>],
  PlanningProblemParams |->
    [fields |-> {"antialiased", "time_begin", "time_end"},
     kids |-> <<<<"initial_state", "InitialStateParams">>, <<"goal_region", "OccupancyParams">>, <<"lanelet", "LaneletParams">>>>],
  PlanningProblemSetParams |->
    [fields |-> {"antialiased", "draw_ids", "time_begin", "time_end"},
     kids |-> <<<<"planning_problem", "PlanningProblemParams">>>>],
  ShapeParams |->
    [fields |-> {"antialiased", "draw_mesh", "edgecolor", "facecolor", "linewidth", "opacity", "time_begin", "time_end", "zorder"},
     kids |-> <<>>],
  StateParams |->
    [fields |-> {"antialiased", "draw_arrow", "edgecolor", "facecolor", "linewidth", "radius", "scale_factor", "time_begin", "time_end", "zorder"},
     kids |-> <<<<"arrow", "ArrowParams">>>>],
  StaticObstacleParams |->
    [fields |-> {"antialiased", "time_begin", "time_end"},
     kids |-> <<<<"occupancy", "OccupancyParams">>>>],
  TrafficLightParams |->
    [fields |-> {"antialiased", "draw_traffic_lights", "green_color", "red_color", "red_yellow_color", "scale_factor", "show_label", "time_begin", "time_end", "yellow_color", "zorder"},
     kids |-> <<>>],
  TrafficSignParams |->
    [fields |-> {"antialiased", "draw_traffic_signs", "scale_factor", "show_label", "show_traffic_signs", "speed_limit_unit", "time_begin", "time_end", "zorder"},
     kids |-> <<>>],
  TrajectoryParams |->
    [fields |-> {"antialiased", "draw_continuous", "draw_trajectory", "facecolor", "line_width", "time_begin", "time_end", "unique_colors", "zorder"},
     kids |-> <<<<"shape", "ShapeParams">>>>],
  VehicleShapeParams |->
    [fields |-> {"antialiased", "time_begin", "time_end"},
     kids |-> <<<<"direction", "ShapeParams">>, <<"occupancy", "OccupancyParams">>>>],
  VehicleSignalParams |->
    [fields |-> {"antialiased", "signal_radius", "time_begin", "time_end"},
     kids |-> <<<<"indicator", "ShapeParams">>, <<"braking", "ShapeParams">>, <<"horn", "ShapeParams">>, <<"bluelight", "ShapeParams">>>>]
]
=================================================================================
