------------------------------ MODULE ScenarioStore ------------------------------
(* C09 (and the store part of C10/C07): the scenario as a container of objects with ids.  *)
(* Functional core of the CONTRACT-level specification: what each public operation of     *)
(* Scenario may do to the set of contained objects and to the pool of reserved ids.       *)
(* The contract is written from the property statement, not from the code:                *)
(*   Unique      no two contained objects share an id (incoming elements included)        *)
(*   PoolExact   reserved ids = ids of contained objects                                  *)
(*   Reject      adding an object whose id is in use raises ValueError, nothing changes    *)
(*   GenFresh    generate_object_id returns an id unused and never returned before         *)
(*   ReAddable   whatever a removal removed can be added again                            *)
EXTENDS Integers, Sequences, FiniteSets, TLC

(* ---- the universe: object tokens with deliberately colliding ids ---------------------- *)
(* k kind, id own id, inc ids of incoming elements (intersections), sg/lt sign and light   *)
(* ids a lanelet references, tag distinguishes content of same-id lanelets, mem/ord the    *)
(* members of a lanelet network (ord = the order in which add_objects marks them).         *)
T(k, id, inc, sg, lt, tag, ord) ==
    [k |-> k, id |-> id, inc |-> inc, sg |-> sg, lt |-> lt, tag |-> tag, ord |-> ord]
Tok ==
    [ LA |-> T("lanelet", 1, <<>>, {}, {}, 0, <<>>),
      LB |-> T("lanelet", 1, <<>>, {}, {}, 1, <<>>),
      LC |-> T("lanelet", 2, <<>>, {4}, {5}, 0, <<>>),
      LD |-> T("lanelet", 3, <<>>, {4}, {}, 0, <<>>),
      SA |-> T("sign", 4, <<>>, {}, {}, 0, <<>>),
      SB |-> T("sign", 2, <<>>, {}, {}, 0, <<>>),
      TA |-> T("light", 5, <<>>, {}, {}, 0, <<>>),
      XA |-> T("inter", 6, <<7>>, {}, {}, 0, <<>>),
      XB |-> T("inter", 5, <<8, 2>>, {}, {}, 0, <<>>),
      OS |-> T("static", 3, <<>>, {}, {}, 0, <<>>),
      OD |-> T("dynamic", 7, <<>>, {}, {}, 0, <<>>),
      OP |-> T("phantom", 1, <<>>, {}, {}, 0, <<>>),
      OE |-> T("env", 6, <<>>, {}, {}, 0, <<>>),
      OQ |-> T("static", 4, <<>>, {}, {}, 0, <<>>),      \* an obstacle holding the id that lanelets LC / LD name as a sign (dangling reference)
      NA |-> T("network", 0, <<>>, {}, {}, 0, <<"LA", "LC", "SA", "TA", "XA">>),
      NB |-> T("network", 0, <<>>, {}, {}, 0, <<"LD", "SB">>),
      NC |-> T("network", 0, <<>>, {}, {}, 0, <<"LA", "LC", "SB">>) ]     \* inner collision: LC and SB share id 2

Names     == DOMAIN Tok
NetNames  == {n \in Names : Tok[n].k = "network"}
ObjNames  == Names \ NetNames
NetKinds  == {"lanelet", "sign", "light", "inter"}
ObsKinds  == {"static", "dynamic", "phantom", "env"}
Lanelets  == {n \in ObjNames : Tok[n].k = "lanelet"}
ProbeIds  == 1..9

Range(s)   == {s[i] : i \in DOMAIN s}
IdSeq(n)   == <<Tok[n].id>> \o Tok[n].inc                     \* marking order of one object
IdsObj(n)  == Range(IdSeq(n))
Mem(n)     == Range(Tok[n].ord)
IdsNet(n)  == UNION {IdsObj(m) : m \in Mem(n)}
SelfCollide(n) == \E a, b \in Mem(n) : a # b /\ IdsObj(a) \cap IdsObj(b) # {}
NoDupInc(n)    == Cardinality(IdsObj(n)) = Len(IdSeq(n))

(* ---- abstract state ------------------------------------------------------------------- *)
(* C: contained object tokens; sg, lt: current sign/light references of contained lanelets; *)
(* gen: ids generate_object_id has returned; freed: ids released by some removal so far.    *)
Used(C)      == UNION {IdsObj(n) : n \in C}
Unique(C)    == \A a, b \in C : a # b => IdsObj(a) \cap IdsObj(b) = {}
NetPart(C)   == {n \in C : Tok[n].k \in NetKinds}
ObsPart(C)   == {n \in C : Tok[n].k \in ObsKinds}
StaticRefs(f) == [n \in Lanelets |-> Tok[n][f]]
(* leak: ids reserved although no contained object owns them (always {} in the contract model; in trace validation the  *)
(* logged pool is adopted after a PoolExact rejection so that one leak is reported once, not at every later call). *)
Empty == [C |-> {}, sg |-> StaticRefs("sg"), lt |-> StaticRefs("lt"), gen |-> {}, freed |-> {}, leak |-> {}]
Taken(s) == Used(s.C) \cup s.leak

WithRefsReset(s, ns) ==        \* freshly constructed lanelets carry their constructor references
    [s EXCEPT !.sg = [n \in Lanelets |-> IF n \in ns THEN Tok[n].sg ELSE s.sg[n]],
              !.lt = [n \in Lanelets |-> IF n \in ns THEN Tok[n].lt ELSE s.lt[n]]]
DropRefs(s, sids, lids) ==     \* removing a sign / light removes the references to it
    [s EXCEPT !.sg = [n \in Lanelets |-> IF n \in s.C THEN s.sg[n] \ sids ELSE s.sg[n]],
              !.lt = [n \in Lanelets |-> IF n \in s.C THEN s.lt[n] \ lids ELSE s.lt[n]]]
IdsOfKind(ns, k) == {Tok[n].id : n \in {m \in ns : Tok[m].k = k}}

(* observable shape: references are compared modulo dangling ones (a reference to a sign/light that is not contained  *)
(* is outside the statement; the code's clean-up may or may not drop it)                                             *)
Shape(s) == [C |-> s.C, sg |-> [n \in Lanelets \cap s.C |-> s.sg[n] \cap IdsOfKind(s.C, "sign")],
                        lt |-> [n \in Lanelets \cap s.C |-> s.lt[n] \cap IdsOfKind(s.C, "light")]]

(* ---- expected effect of each operation: [res, posts (set of acceptable states) or any] -- *)
Outcome(res, posts, any) == [res |-> res, posts |-> posts, any |-> any]


AddObjState(s, n) == WithRefsReset([s EXCEPT !.C = @ \cup {n}], {n} \cap Lanelets)
AddObjOk(s, n)    == IdsObj(n) \cap Taken(s) = {} /\ NoDupInc(n)
ExpAddObj(s, n)   == IF AddObjOk(s, n) THEN Outcome("ok", {AddObjState(s, n)}, FALSE)
                                       ELSE Outcome("ValueError", {s}, FALSE)

RECURSIVE AddSeq(_, _)
AddSeq(s, q) == IF q = <<>> THEN <<s, TRUE>>
                ELSE IF AddObjOk(s, Head(q)) THEN AddSeq(AddObjState(s, Head(q)), Tail(q)) ELSE <<s, FALSE>>
ExpAddList(s, q) == LET r == AddSeq(s, q) IN
    IF r[2] THEN Outcome("ok", {r[1]}, FALSE)
    ELSE Outcome("ValueError", {r[1], s}, FALSE)   \* elements before the failing one may stay, or all-or-nothing

NetState(s, N) == WithRefsReset([s EXCEPT !.C = @ \cup Mem(N)], Mem(N) \cap Lanelets)
NetOk(s, N)    == IdsNet(N) \cap Taken(s) = {} /\ ~SelfCollide(N)
ExpAddNet(s, N) ==
    IF NetPart(s.C) = {}
    THEN IF NetOk(s, N) THEN Outcome("ok", {NetState(s, N)}, FALSE) ELSE Outcome("ValueError", {s}, FALSE)
    ELSE \* adding a whole network onto a non-empty one: the statement fixes no containment; only the invariants and
         \* "ValueError leaves the scenario unchanged" apply
         Outcome("any", {s}, TRUE)

Hanging(s, Ls, k, f) ==     \* signs (k, f = "sign","sg") / lights referenced by removed lanelets Ls and by no remaining lanelet
    LET rem  == (Lanelets \cap s.C) \ Ls
        refd == UNION {s[f][n] : n \in Ls}
        kept == UNION {s[f][n] : n \in rem}
    IN {n \in s.C : Tok[n].k = k /\ Tok[n].id \in refd \ kept}
RemoveState(s, ns) ==
    DropRefs([s EXCEPT !.C = @ \ ns, !.freed = @ \cup Used(ns)], IdsOfKind(ns, "sign"), IdsOfKind(ns, "light"))
ExpRemove(s, ns) == Outcome("ok", {RemoveState(s, ns)}, FALSE)
ExpRemoveLanelet(s, Ls, ref) ==
    LET h == IF ref THEN Hanging(s, Ls, "sign", "sg") \cup Hanging(s, Ls, "light", "lt") ELSE {}
    IN Outcome("ok", {RemoveState(s, Ls \cup h)}, FALSE)
ExpErase(s) == Outcome("ok", {RemoveState(s, NetPart(s.C))}, FALSE)
ExpReplace(s, N) ==
    LET e == RemoveState(s, NetPart(s.C)) IN
    IF NetOk(e, N) THEN Outcome("ok", {NetState(e, N)}, FALSE)
    ELSE Outcome("ValueError", {s, e}, FALSE)     \* either nothing happened or the old network is gone

GenOk(s, i) == i \notin Used(s.C) /\ i \notin s.gen

(* ---- the operation alphabet (records; `toks` is a sequence of token names) -------------- *)
SeqSet(q) == Range(q)
Exp(s, a) ==
    CASE a.op = "add"             -> IF a.toks[1] \in NetNames THEN ExpAddNet(s, a.toks[1]) ELSE ExpAddObj(s, a.toks[1])
      [] a.op = "add_list"        -> ExpAddList(s, a.toks)
      [] a.op = "remove_obstacle" -> ExpRemove(s, SeqSet(a.toks))
      [] a.op = "remove_sign"     -> ExpRemove(s, SeqSet(a.toks))
      [] a.op = "remove_light"    -> ExpRemove(s, SeqSet(a.toks))
      [] a.op = "remove_inter"    -> ExpRemove(s, SeqSet(a.toks))
      [] a.op = "remove_lanelet"  -> ExpRemoveLanelet(s, SeqSet(a.toks), a.ref = 1)
      [] a.op = "erase"           -> ExpErase(s)
      [] a.op = "replace"         -> ExpReplace(s, a.toks[1])
      [] a.op = "gen"             -> Outcome("ok", {s}, FALSE)
      [] a.op = "remove_absent"   -> Outcome("ok", {s}, FALSE)     \* removing an obstacle that is not contained: warning only
KindOfOp == [remove_obstacle |-> ObsKinds, remove_sign |-> {"sign"}, remove_light |-> {"light"},
             remove_inter |-> {"inter"}, remove_lanelet |-> {"lanelet"}]
PreOk(s, a) ==       \* what the drivers promise: removals name contained objects of the right kind
    IF a.op \in DOMAIN KindOfOp
    THEN SeqSet(a.toks) # {} /\ SeqSet(a.toks) \subseteq s.C /\ \A n \in SeqSet(a.toks) : Tok[n].k \in KindOfOp[a.op]
    ELSE IF a.op = "remove_absent"
    THEN SeqSet(a.toks) # {} /\ SeqSet(a.toks) \cap s.C = {} /\ \A n \in SeqSet(a.toks) : Tok[n].k \in ObsKinds
    ELSE TRUE
===================================================================================
