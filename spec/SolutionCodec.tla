------------------------------ MODULE SolutionCodec ------------------------------
(* C14 - solution files round-trip exactly and follow the solution schema.              *)
(*                                                                                      *)
(* Functional core (no variables).  The tables are transcribed from the property        *)
(* statement, the public state classes (attribute names) and the SHIPPED schema         *)
(* CommonRoadSolution_schema.xsd (element names, order, xs:all contents, simple types), *)
(* not from the writer/reader code.  A solution is an abstract descriptor               *)
(*   [pps  |-> << [kind, model, vtype, cost, ppid, steps, vals], ... >>,                *)
(*    ct, date, proc, scen]                                                             *)
(* whose leaves are tokens: `vals[s][j]` is the VALUE CLASS of the j-th xml leaf of     *)
(* state s (the harness picks the concrete number of a class from a fixed table), `ct`, *)
(* `date`, `proc` are "None" or a token, `scen` names a scenario id of a fixed table.   *)
EXTENDS Integers, Sequences, FiniteSets, TLC, Json

CONSTANTS DEV_ReaderNoKST   \* TRUE: reader state-class table as shipped (no kstState entry) - documents a finding

Range(s) == {s[i] : i \in DOMAIN s}
RECURSIVE Flat(_)
Flat(ss) == IF ss = <<>> THEN <<>> ELSE Head(ss) \o Flat(Tail(ss))
IdxOf(s, x) == CHOOSE i \in DOMAIN s : s[i] = x
(* ascending arrangement of a sequence of distinct integers *)
Asc(s) == CHOOSE t \in [1..Len(s) -> Range(s)] : Range(t) = Range(s) /\ \A i \in 1..Len(s) - 1 : t[i] < t[i + 1]

(* ------------------------------ vocabulary ------------------------------------------ *)
Kinds  == {"PM", "ST", "KS", "KST", "MB", "Input", "PMInput"}          \* trajectory kinds
Models == {"PM", "ST", "KS", "KST", "MB"}                               \* vehicle models
VTypes == 1..4                                                          \* FORD_ESCORT, BMW_320i, VW_VANAGON, TRUCK
Costs  == {"JB1", "SA1", "WX1", "SM1", "SM2", "SM3", "MW1", "TR1"}

TrajName  == [PM |-> "pmTrajectory", ST |-> "stTrajectory", KS |-> "ksTrajectory", KST |-> "kstTrajectory",
              MB |-> "mbTrajectory", Input |-> "inputVector", PMInput |-> "pmInputVector"]
StateName == [PM |-> "pmState", ST |-> "stState", KS |-> "ksState", KST |-> "kstState",
              MB |-> "mbState", Input |-> "input", PMInput |-> "pmInput"]

(* an input vector is admitted by KS, ST, MB (steering-rate/acceleration inputs); the point-mass model has its own *)
Admits(k, m) == \/ k = m
                \/ k = "Input" /\ m \in {"KS", "ST", "MB"}
                \/ k = "PMInput" /\ m = "PM"
KindModels == {km \in Kinds \X Models : Admits(km[1], km[2])}
(* cost functions a vehicle model admits: the point-mass model only JB1, WX1, MW1; all others every cost function *)
CostsOf(m) == IF m = "PM" THEN {"JB1", "WX1", "MW1"} ELSE Costs

(* ------------------------------ field tables ---------------------------------------- *)
(* attribute names of the public state classes, time step last *)
Fields ==
  [PM  |-> <<"position", "velocity", "velocity_y", "time_step">>,
   ST  |-> <<"position", "steering_angle", "velocity", "orientation", "yaw_rate", "slip_angle", "time_step">>,
   KS  |-> <<"position", "steering_angle", "velocity", "orientation", "time_step">>,
   KST |-> <<"position", "steering_angle", "velocity", "orientation", "hitch_angle", "time_step">>,
   MB  |-> <<"position", "steering_angle", "velocity", "orientation", "yaw_rate", "roll_angle", "roll_rate",
             "pitch_angle", "pitch_rate", "velocity_y", "position_z", "velocity_z", "roll_angle_front",
             "roll_rate_front", "velocity_y_front", "position_z_front", "velocity_z_front", "roll_angle_rear",
             "roll_rate_rear", "velocity_y_rear", "position_z_rear", "velocity_z_rear",
             "left_front_wheel_angular_speed", "right_front_wheel_angular_speed",
             "left_rear_wheel_angular_speed", "right_rear_wheel_angular_speed", "delta_y_f", "delta_y_r",
             "time_step">>,
   Input   |-> <<"steering_angle_speed", "acceleration", "time_step">>,
   PMInput |-> <<"acceleration", "acceleration_y", "time_step">>]

(* xml element names, index-aligned with Fields (position is carried by two elements) *)
XmlNames ==
  [PM  |-> << <<"x", "y">>, <<"xVelocity">>, <<"yVelocity">>, <<"time">> >>,
   ST  |-> << <<"x", "y">>, <<"steeringAngle">>, <<"velocity">>, <<"orientation">>, <<"yawRate">>,
              <<"slipAngle">>, <<"time">> >>,
   KS  |-> << <<"x", "y">>, <<"steeringAngle">>, <<"velocity">>, <<"orientation">>, <<"time">> >>,
   KST |-> << <<"x", "y">>, <<"steeringAngle">>, <<"velocity">>, <<"orientation">>, <<"hitch_angle">>, <<"time">> >>,
   MB  |-> << <<"x", "y">>, <<"steeringAngle">>, <<"velocity">>, <<"orientation">>, <<"yawRate">>, <<"rollAngle">>,
              <<"rollRate">>, <<"pitchAngle">>, <<"pitchRate">>, <<"yVelocity">>, <<"zPosition">>, <<"zVelocity">>,
              <<"rollAngleFront">>, <<"rollRateFront">>, <<"yVelocityFront">>, <<"zPositionFront">>,
              <<"zVelocityFront">>, <<"rollAngleRear">>, <<"rollRateRear">>, <<"yVelocityRear">>,
              <<"zPositionRear">>, <<"zVelocityRear">>, <<"leftFrontWheelAngularSpeed">>,
              <<"rightFrontWheelAngularSpeed">>, <<"leftRearWheelAngularSpeed">>, <<"rightRearWheelAngularSpeed">>,
              <<"deltaYf">>, <<"deltaYr">>, <<"time">> >>,
   Input   |-> << <<"steeringAngleSpeed">>, <<"acceleration">>, <<"time">> >>,
   PMInput |-> << <<"xAcceleration">>, <<"yAcceleration">>, <<"time">> >>]

(* the naming rule, attribute -> element name(s), written independently of the two lists above *)
XmlOfField ==
  [position |-> <<"x", "y">>, steering_angle |-> <<"steeringAngle">>, velocity |-> <<"velocity">>,
   orientation |-> <<"orientation">>, yaw_rate |-> <<"yawRate">>, slip_angle |-> <<"slipAngle">>,
   hitch_angle |-> <<"hitch_angle">>, roll_angle |-> <<"rollAngle">>, roll_rate |-> <<"rollRate">>,
   pitch_angle |-> <<"pitchAngle">>, pitch_rate |-> <<"pitchRate">>, velocity_y |-> <<"yVelocity">>,
   position_z |-> <<"zPosition">>, velocity_z |-> <<"zVelocity">>, roll_angle_front |-> <<"rollAngleFront">>,
   roll_rate_front |-> <<"rollRateFront">>, velocity_y_front |-> <<"yVelocityFront">>,
   position_z_front |-> <<"zPositionFront">>, velocity_z_front |-> <<"zVelocityFront">>,
   roll_angle_rear |-> <<"rollAngleRear">>, roll_rate_rear |-> <<"rollRateRear">>,
   velocity_y_rear |-> <<"yVelocityRear">>, position_z_rear |-> <<"zPositionRear">>,
   velocity_z_rear |-> <<"zVelocityRear">>, left_front_wheel_angular_speed |-> <<"leftFrontWheelAngularSpeed">>,
   right_front_wheel_angular_speed |-> <<"rightFrontWheelAngularSpeed">>,
   left_rear_wheel_angular_speed |-> <<"leftRearWheelAngularSpeed">>,
   right_rear_wheel_angular_speed |-> <<"rightRearWheelAngularSpeed">>, delta_y_f |-> <<"deltaYf">>,
   delta_y_r |-> <<"deltaYr">>, time_step |-> <<"time">>, steering_angle_speed |-> <<"steeringAngleSpeed">>,
   acceleration |-> <<"acceleration">>, acceleration_y |-> <<"yAcceleration">>]
XmlOf(k, f) == IF k = "PM" /\ f = "velocity" THEN <<"xVelocity">>              \* point mass: velocity is the x component
               ELSE IF k = "PMInput" /\ f = "acceleration" THEN <<"xAcceleration">>
               ELSE XmlOfField[f]

Leaves(k) == Flat(XmlNames[k])          \* xml leaf names of one state, "time" last
NV(k)     == Len(Leaves(k)) - 1         \* number of real-valued leaves

(* ------------------------------ reader state-class table ---------------------------- *)
ReaderClassFull == [mbState |-> "MBState", ksState |-> "KSState", pmState |-> "PMState", stState |-> "STState",
                    kstState |-> "KSTState", input |-> "InputState", pmInput |-> "PMInputState"]
ReaderClass == [s \in (DOMAIN ReaderClassFull) \ (IF DEV_ReaderNoKST THEN {"kstState"} ELSE {}) |-> ReaderClassFull[s]]

(* ------------------------------ the shipped schema ----------------------------------- *)
(* CommonRoadSolution: xs:sequence of the following elements in THIS order, each minOccurs 0 / maxOccurs unbounded *)
SchemaTrajOrder == <<"pmInputVector", "inputVector", "pmTrajectory", "ksTrajectory", "stTrajectory", "mbTrajectory">>
(* each trajectory element: xs:sequence of one state element, minOccurs 1 / maxOccurs unbounded *)
SchemaState == [pmInputVector |-> "pmInput", inputVector |-> "input", pmTrajectory |-> "pmState",
                ksTrajectory |-> "ksState", stTrajectory |-> "stState", mbTrajectory |-> "mbState"]
(* each state element: xs:all (every child exactly once, any order) of simple-typed children *)
F == "float"
I == "int"
SchemaLeaves ==
  [pmInput |-> [xAcceleration |-> F, yAcceleration |-> F, time |-> I],
   input   |-> [acceleration |-> F, steeringAngleSpeed |-> F, time |-> I],
   pmState |-> [x |-> F, y |-> F, xVelocity |-> F, yVelocity |-> F, time |-> I],
   ksState |-> [x |-> F, y |-> F, orientation |-> F, velocity |-> F, steeringAngle |-> F, time |-> I],
   stState |-> [x |-> F, y |-> F, orientation |-> F, yawRate |-> F, velocity |-> F, steeringAngle |-> F,
                slipAngle |-> F, time |-> I],
   mbState |-> [x |-> F, y |-> F, steeringAngle |-> F, velocity |-> F, orientation |-> F, yawRate |-> F,
                rollAngle |-> F, rollRate |-> F, pitchAngle |-> F, pitchRate |-> F, yVelocity |-> F,
                zPosition |-> F, zVelocity |-> F,
                rollAngleFront |-> F, rollRateFront |-> F, yVelocityFront |-> F, zPositionFront |-> F,
                zVelocityFront |-> F,
                rollAngleRear |-> F, rollRateRear |-> F, yVelocityRear |-> F, zPositionRear |-> F,
                zVelocityRear |-> F,
                leftFrontWheelAngularSpeed |-> F, rightFrontWheelAngularSpeed |-> F,
                leftRearWheelAngularSpeed |-> F, rightRearWheelAngularSpeed |-> F,
                deltaYf |-> F, deltaYr |-> F, time |-> I]]
SchemaRootAttrs == [benchmark_id |-> [t |-> "string", req |-> TRUE], date |-> [t |-> "dateTime", req |-> FALSE],
                    computation_time |-> [t |-> F, req |-> FALSE], processor_name |-> [t |-> "string", req |-> FALSE]]
SchemaTrajAttrs == [planningProblem |-> [t |-> "string", req |-> TRUE]]

(* lexical classes of a text (computed by the harness with regular expressions after whitespace collapse):      *)
(*   "int" [+-]?d+ within 32 bit, "bigint" the same beyond 32 bit, "decimal" with a point, "exp" with exponent, *)
(*   "INF" / "NaN" the XSD spellings (INF, -INF, NaN), "inf" / "nan" any other spelling (python's), "dateTime"  *)
(*   YYYY-MM-DDThh:mm:ss[.f][zone], "other".                                                                   *)
LexOK(type, c) == CASE type = "float"    -> c \in {"int", "bigint", "decimal", "exp", "INF", "NaN"}
                    [] type = "int"      -> c = "int"
                    [] type = "dateTime" -> c = "dateTime"
                    [] type = "string"   -> TRUE

SchemaKinds == {k \in Kinds : TrajName[k] \in Range(SchemaTrajOrder)}      \* trajectory types the schema defines

AttrRule(attrs, decl) ==
  LET an == {attrs[i].n : i \in DOMAIN attrs} IN
  IF \E a \in DOMAIN decl : decl[a].req /\ a \notin an THEN "attribute-required"
  ELSE IF ~(an \subseteq DOMAIN decl) THEN "attribute-undeclared"
  ELSE IF \E i \in DOMAIN attrs : ~LexOK(decl[attrs[i].n].t, attrs[i].c) THEN "attribute-type"
  ELSE ""

StateRule(st, sname) ==
  IF st.n # sname THEN "state-name"
  ELSE LET L == SchemaLeaves[sname] IN
       IF Len(st.elems) # Cardinality(DOMAIN L) \/ {st.elems[j].n : j \in DOMAIN st.elems} # DOMAIN L
       THEN "state-content"                                                \* xs:all: each child exactly once
       ELSE IF \E j \in DOMAIN st.elems : ~LexOK(L[st.elems[j].n], st.elems[j].c) THEN "leaf-type"
       ELSE ""

TrajRule(t) ==
  IF AttrRule(t.attrs, SchemaTrajAttrs) # "" THEN "trajectory-" \o AttrRule(t.attrs, SchemaTrajAttrs)
  ELSE IF Len(t.states) = 0 THEN "trajectory-empty"
  ELSE LET bad == {s \in DOMAIN t.states : StateRule(t.states[s], SchemaState[t.n]) # ""} IN
       IF bad = {} THEN "" ELSE StateRule(t.states[CHOOSE s \in bad : \A r \in bad : s <= r], SchemaState[t.n])

(* first rule of the schema the abstract document breaks, "" if none *)
SchemaRule(d) ==
  IF d.root # "CommonRoadSolution" THEN "root"
  ELSE IF AttrRule(d.attrs, SchemaRootAttrs) # "" THEN AttrRule(d.attrs, SchemaRootAttrs)
  ELSE IF \E i \in DOMAIN d.trajs : d.trajs[i].n \notin Range(SchemaTrajOrder) THEN "trajectory-undefined"
  ELSE IF \E i \in 1..Len(d.trajs) - 1 :
            IdxOf(SchemaTrajOrder, d.trajs[i].n) > IdxOf(SchemaTrajOrder, d.trajs[i + 1].n) THEN "trajectory-order"
  ELSE LET bad == {i \in DOMAIN d.trajs : TrajRule(d.trajs[i]) # ""} IN
       IF bad = {} THEN "" ELSE TrajRule(d.trajs[CHOOSE i \in bad : \A r \in bad : i <= r])
SchemaAccepts(d) == SchemaRule(d) = ""

(* the statement asserts schema conformance only for solutions whose trajectory types the schema defines and *)
(* that list them in the order the schema defines them                                                        *)
SchemaApplies(sol) ==
  /\ \A i \in DOMAIN sol.pps : sol.pps[i].kind \in SchemaKinds
  /\ \A i \in 1..Len(sol.pps) - 1 : IdxOf(SchemaTrajOrder, TrajName[sol.pps[i].kind])
                                      <= IdxOf(SchemaTrajOrder, TrajName[sol.pps[i + 1].kind])

(* ------------------------------ value classes --------------------------------------- *)
VClasses  == {"zero", "negzero", "intf", "pyint", "ord", "tiny", "huge", "neg", "sig17", "extreme"}
(* numpy scalars the library's own validity check counts as real numbers (ValidTypes.NUMBERS has numpy.number): *)
(* double precision, 64-bit integer, single precision                                                           *)
NumpyClasses == {"np64", "npint", "np32"}
(* computation time: the Solution constructor rejects 0 and negative numbers (is_positive), so they are not      *)
(* solutions and lie outside the statement's quantifier; the classes are int-valued float, python int, ordinary, *)
(* 1e-7, 1e-9, 1e20, largest double, 17 significant digits                                                       *)
CtClasses == {"intf", "pyint", "ord", "tiny", "tiny9", "huge", "max", "sig17"}

(* ------------------------------ metadata text classes -------------------------------- *)
(* processor name tokens (the harness maps a token to a concrete string):                                         *)
(*   plain    ASCII, e.g. "AMD Ryzen 7 5800X 8-Core Processor"                                                    *)
(*   tm       with trademark markers as in /proc/cpuinfo: "Intel(R) Core(TM) i7-8550U CPU @ 1.80GHz"              *)
(*   xml      XML-special characters & < > " '                                                                    *)
(*   spaces   leading / trailing / double blanks (blanks survive attribute-value normalisation)                   *)
(*   unicode  non-ASCII text                                                                                      *)
(*   empty    the empty string (distinct from None = attribute absent)                                            *)
(*   long     200 characters                                                                                      *)
(*   auto     the documented magic value: "determined automatically" - the written name is the machine's, so the  *)
(*            VALUE is not asserted (EITHER); writing and reading back must still work                            *)
(*   ws       tabs / line breaks: XML attribute-value normalisation (XML 1.0, 3.3.3) turns literal #x9 #xA #xD in *)
(*            an attribute into blanks unless the serialiser writes character references, so XML itself may not   *)
(*            preserve the string: EITHER                                                                         *)
ProcTokens == {"plain", "tm", "xml", "spaces", "unicode", "empty", "long", "auto", "ws"}
ProcEither == {"auto", "ws"}
(* expected projection of the read-back processor name: "None" absent, "equal" identical string, "EITHER" band *)
ProcExpect(expected, original) == IF original \in ProcEither THEN "EITHER"
                                  ELSE IF expected = "None" THEN "None"
                                  ELSE IF expected = original THEN "equal" ELSE "differs"
(* date tokens ("date to the second"): default = constructor default (now, with microseconds), plain, midnight     *)
(* 00:00:00, eoy = 31 Dec 23:59:59, micro = 31 Dec 23:59:59.999999 (rounding up would change the year),           *)
(* micro1 = .000001, leap = 29 Feb with .5 s                                                                      *)
(* y1970 / y9999 = extreme years; utc, tzplus (+02:00), tzminus (-05:30) = timezone-AWARE datetimes: "to the     *)
(* second" means the same wall-clock fields (year..second) come back - whether the tzinfo survives is EITHER;      *)
(* dateonly = a datetime.date (the API stores whatever it is given): its day comes back at 00:00:00.                *)
(* For naive values the reader must not invent a time zone.                                                         *)
DateTokens == {"default", "plain", "midnight", "eoy", "micro", "micro1", "leap", "y1970", "y9999", "utc", "tzplus",
               "tzminus", "dateonly"}
DateAware  == {"utc", "tzplus", "tzminus"}
(* projection of the read-back tzinfo: "none" both naive, "kept" same offset, "dropped" / "added" / "changed" *)
(* ("none" also for an aware token: an object that was itself read from a document may already have lost it) *)
TzOK(original, tz) == IF original \in DateAware THEN tz \in {"none", "kept", "dropped", "changed"}   \* EITHER band
                      ELSE tz = "none"
(* lexical class of the shortest decimal text that reads back bit-identically (what an exact writer emits) *)
LexOfV == [zero |-> "decimal", negzero |-> "decimal", intf |-> "decimal", pyint |-> "int", ord |-> "decimal",
           tiny |-> "exp", huge |-> "exp", neg |-> "decimal", sig17 |-> "decimal", extreme |-> "exp",
           tiny9 |-> "exp", max |-> "exp",
           np64 |-> "decimal", npint |-> "int", np32 |-> "decimal"]

(* ------------------------------ abstract document ----------------------------------- *)
VId(pp) == pp.model \o ToString(pp.vtype)                                  \* e.g. "KS2"
Opt(name, tok, c) == IF tok = "None" THEN <<>> ELSE <<[n |-> name, c |-> c, v |-> tok]>>

StateDoc(pp, s) ==
  LET k == pp.kind L == Leaves(k) IN
  [n |-> StateName[k],
   elems |-> [j \in 1..Len(L) |-> IF j = Len(L) THEN [n |-> "time", c |-> "int", t |-> pp.steps[s], v |-> "time"]
                                   ELSE [n |-> L[j], c |-> LexOfV[pp.vals[s][j]], t |-> 0, v |-> pp.vals[s][j]]]]
TrajDoc(pp) == [n |-> TrajName[pp.kind], attrs |-> <<[n |-> "planningProblem", c |-> "int"]>>, pp |-> pp.ppid,
                states |-> [s \in 1..Len(pp.steps) |-> StateDoc(pp, s)]]
AbstractDoc(sol) ==
  [root  |-> "CommonRoadSolution",
   bid   |-> [vids |-> [i \in 1..Len(sol.pps) |-> VId(sol.pps[i])],
              cids |-> [i \in 1..Len(sol.pps) |-> sol.pps[i].cost], scen |-> sol.scen],
   attrs |-> <<[n |-> "benchmark_id", c |-> "other", v |-> "bid"]>>
             \o Opt("computation_time", sol.ct, IF sol.ct = "None" THEN "" ELSE LexOfV[sol.ct])
             \o Opt("date", sol.date, "dateTime") \o Opt("processor_name", sol.proc, "other"),
   trajs |-> [i \in 1..Len(sol.pps) |-> TrajDoc(sol.pps[i])]]

(* ------------------------------ reading a document back ----------------------------- *)
AttrTok(d, name) == LET S == {i \in DOMAIN d.attrs : d.attrs[i].n = name} IN
                    IF S = {} THEN "None" ELSE d.attrs[CHOOSE i \in S : TRUE].v
KindOfTraj(n) == CHOOSE k \in Kinds : TrajName[k] = n
TrajErr(t) == IF ~\E k \in Kinds : TrajName[k] = t.n THEN "exc:SolutionReaderException"
              ELSE IF StateName[KindOfTraj(t.n)] \notin DOMAIN ReaderClass THEN "exc:KeyError"
              ELSE ""
Leaf(st, name) == st.elems[CHOOSE j \in DOMAIN st.elems : st.elems[j].n = name]
DecodeTraj(t) ==
  LET k     == KindOfTraj(t.n)
      times == Asc([s \in DOMAIN t.states |-> Leaf(t.states[s], "time").t])   \* states sorted by time step
      at(u) == t.states[CHOOSE s \in DOMAIN t.states : Leaf(t.states[s], "time").t = u]
  IN [kind |-> k, ppid |-> t.pp, steps |-> times,
      vals |-> [s \in 1..Len(times) |-> [j \in 1..NV(k) |-> Leaf(at(times[s]), Leaves(k)[j]).v]]]
Decode(d) ==
  LET bad == {i \in DOMAIN d.trajs : TrajErr(d.trajs[i]) # ""} IN
  IF bad # {} THEN [err |-> TrajErr(d.trajs[CHOOSE i \in bad : \A r \in bad : i <= r])]
  ELSE [err |-> "", vids |-> d.bid.vids, cids |-> d.bid.cids, scen |-> d.bid.scen,
        trajs |-> [i \in DOMAIN d.trajs |-> DecodeTraj(d.trajs[i])],
        ct |-> AttrTok(d, "computation_time"), date |-> AttrTok(d, "date"), proc |-> AttrTok(d, "processor_name")]

(* expected descriptor after write -> read *)
ReadBack(sol) == Decode(AbstractDoc(sol))

(* State order.  `steps` is the order in which the states stand in the written document: the writer emits a   *)
(* trajectory's state list in list order (Trajectory only requires state_list[1].time_step = initial time   *)
(* step, so lists such as 3,5,4,6 or 2,0,1 are solutions), and a document may be handed to the reader        *)
(* directly.  The statement promises the time steps back in ASCENDING order; every state keeps its values:   *)
(* read-back position r holds the written state SrcState(steps, r).  `route` says how the document was made  *)
(* ("writer": Trajectory built in `steps` order and dumped; "doc": ascending solution dumped, state nodes    *)
(* then put in `steps` order) - the contract is the same for both.                                            *)
Routes == {"writer", "doc"}
SrcState(steps, r) == IdxOf(steps, Asc(steps)[r])

(* Histories.  A Solution and its PlanningProblemSolutions are mutable objects with public attributes           *)
(* (planning_problem_id, cost_function, vehicle_type, trajectory; scenario_id, computation_time, processor_name,  *)
(* date).  The contract is HISTORY-FREE: the written document reflects the CURRENT attribute values, however the   *)
(* object got there - `sol` below is always the current descriptor; AbstractDoc, ReadBack, Carried do not look at  *)
(* how it was reached.  A history is (origin, init): the object is first "built" from the descriptor `init` with   *)
(* the public constructors, or built and then "read" back from its own document, then every public attribute in   *)
(* which `init` differs from `sol` is assigned the value of `sol`; origin "none" = no history (init = sol).        *)
Origins == {"none", "built", "read"}
MutTokens == {"ppid", "cost", "vtype", "traj", "kind", "scen", "ct", "proc", "date"}
OtherKind(k, m) == IF k # m THEN m ELSE IF m \in {"KS", "ST", "MB"} THEN "Input" ELSE IF m = "PM" THEN "PMInput" ELSE k
(* an initial planning problem solution that differs from p in the attributes named by toks (the vehicle model is *)
(* not assignable independently of the trajectory and stays)                                                       *)
InitPP(p, toks) ==
  LET k0 == IF "kind" \in toks THEN OtherKind(p.kind, p.model) ELSE p.kind
      st == IF "traj" \in toks THEN <<p.steps[1] + 10>> ELSE IF "kind" \in toks THEN <<0, 1>> ELSE p.steps
      vs == IF "traj" \in toks \/ "kind" \in toks
            THEN [s \in 1..Len(st) |-> [j \in 1..NV(k0) |-> "neg"]] ELSE p.vals
  IN [kind |-> k0, model |-> p.model, vtype |-> IF "vtype" \in toks THEN (p.vtype % 4) + 1 ELSE p.vtype,
      cost |-> IF "cost" \in toks THEN (IF p.cost = "JB1" THEN "WX1" ELSE "JB1") ELSE p.cost,
      ppid |-> IF "ppid" \in toks THEN p.ppid + 100 ELSE p.ppid, steps |-> st, vals |-> vs]
Swap(tok, a, b) == IF tok = a THEN b ELSE a
(* idx = the planning problem solutions the per-solution tokens apply to *)
InitOf(sol, toks, idx) ==
  [pps |-> [i \in 1..Len(sol.pps) |-> IF i \in idx THEN InitPP(sol.pps[i], toks) ELSE sol.pps[i]],
   ct |-> IF "ct" \in toks THEN Swap(sol.ct, "ord", "tiny") ELSE sol.ct,
   date |-> IF "date" \in toks THEN Swap(sol.date, "plain", "eoy") ELSE sol.date,
   proc |-> IF "proc" \in toks THEN Swap(sol.proc, "plain", "tm") ELSE sol.proc,
   scen |-> IF "scen" \in toks THEN Swap(sol.scen, "T", "S") ELSE sol.scen, route |-> sol.route]
HistoryInScope(sol, h) ==
  /\ h.origin \in Origins
  /\ h.origin = "none" => h.init = sol
  /\ h.origin # "none" => /\ h.init # sol /\ h.init.route = "writer" /\ sol.route = "writer"
                           /\ Len(h.init.pps) = Len(sol.pps)
                           /\ \A i \in DOMAIN sol.pps : /\ h.init.pps[i].model = sol.pps[i].model
                                                         /\ Admits(h.init.pps[i].kind, h.init.pps[i].model)
                                                         /\ h.init.pps[i].cost \in CostsOf(h.init.pps[i].model)
                           /\ Cardinality({h.init.pps[q].ppid : q \in DOMAIN sol.pps}) = Len(sol.pps)

(* what the statement compares, taken from the solution itself *)
Carried(sol) ==
  [err |-> "", vids |-> [i \in 1..Len(sol.pps) |-> VId(sol.pps[i])],
   cids |-> [i \in 1..Len(sol.pps) |-> sol.pps[i].cost], scen |-> sol.scen,
   trajs |-> [i \in 1..Len(sol.pps) |-> [kind |-> sol.pps[i].kind, ppid |-> sol.pps[i].ppid,
                                          steps |-> Asc(sol.pps[i].steps),
                                          vals |-> [r \in 1..Len(sol.pps[i].steps) |->
                                                      sol.pps[i].vals[SrcState(sol.pps[i].steps, r)]]]],
   ct |-> sol.ct, date |-> sol.date, proc |-> sol.proc]

(* ------------------------------ laws checked by TLC on the specification ------------ *)
NoDup(s) == \A i, j \in DOMAIN s : i # j => s[i] # s[j]
TablesAligned ==
  \A k \in Kinds : /\ Len(Fields[k]) = Len(XmlNames[k])
                   /\ \A i \in 1..Len(Fields[k]) : XmlNames[k][i] = XmlOf(k, Fields[k][i])
                   /\ Fields[k][Len(Fields[k])] = "time_step" /\ Leaves(k)[Len(Leaves(k))] = "time"
                   /\ NoDup(Fields[k]) /\ NoDup(Leaves(k))
SchemaCovers ==                 \* the element names of every schema-defined kind are exactly the schema's xs:all set
  \A k \in SchemaKinds : /\ SchemaState[TrajName[k]] = StateName[k]
                         /\ Range(Leaves(k)) = DOMAIN SchemaLeaves[StateName[k]]
                         /\ \A j \in 1..NV(k) : SchemaLeaves[StateName[k]][Leaves(k)[j]] = F
                         /\ SchemaLeaves[StateName[k]]["time"] = I
ReaderTotal == \A km \in KindModels : StateName[km[1]] \in DOMAIN ReaderClass
ASSUME ReaderTableLaw == DEV_ReaderNoKST \/ ReaderTotal     \* the intended table is total; the shipped one is not
=================================================================================
