------------------------------ MODULE SolutionFile ------------------------------
(* C14, file history.  CommonRoadSolutionWriter.write_to_file(output_path, filename, overwrite) puts the     *)
(* document of the writer's solution at a path; CommonRoadSolutionReader.open(path) reads it.  A file is      *)
(* modelled as path -> content with content = [doc, len, tail]: `doc` the document token whose text the file  *)
(* starts with ("None" = no file), `len` that text's length, `tail` the number of stale bytes of an older,    *)
(* longer content that follow it (0 for a correct write).  Contract: after a successful write the file is     *)
(* EXACTLY the new document, whatever was there before; overwrite=False on an existing path raises            *)
(* FileExistsError and leaves the file untouched; open() returns the document that was written last.           *)
(* Functional core, no variables.                                                                              *)
EXTENDS Integers, Sequences

CONSTANTS DEV_NoTruncate     \* TRUE: the target is opened without truncation (documents a seeded/possible defect)

FileAbsent == [doc |-> "None", len |-> 0, tail |-> 0]
Exists(f)  == f.doc # "None"
Size(f)    == f.len + f.tail

FileWrite(f, d, n, overwrite) ==
  IF Exists(f) /\ ~overwrite THEN [res |-> "exc:FileExistsError", file |-> f]
  ELSE [res |-> "ok",
        file |-> [doc |-> d, len |-> n, tail |-> IF DEV_NoTruncate /\ Size(f) > n THEN Size(f) - n ELSE 0]]

(* what open(path) yields: the document, or the exception of a missing / not well-formed file *)
FileReads(f) == IF ~Exists(f) THEN "exc:FileNotFoundError" ELSE IF f.tail > 0 THEN "exc:ParseError" ELSE f.doc

(* contract level: the document a history of writes <<[doc, ow], ...>> must leave at the path *)
RECURSIVE ContractDoc(_)
ContractDoc(h) == IF h = <<>> THEN "None"
                  ELSE LET before == ContractDoc(SubSeq(h, 1, Len(h) - 1)) w == h[Len(h)] IN
                       IF before # "None" /\ w.ow = 0 THEN before ELSE w.doc
=================================================================================
