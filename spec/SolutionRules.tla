------------------------------ MODULE SolutionRules ------------------------------
(* X05 (extended coverage) - the validity rule table and the object state machines of          *)
(* commonroad/common/solution.py, beyond the id grammar (C13, BenchmarkId.tla) and the xml      *)
(* round trip (C14, SolutionCodec.tla).  Written from the docstrings of the module, the         *)
(* messages of its exceptions / asserts and the enum definitions (which ARE its documentation): *)
(*   1. the enumerations VehicleType / VehicleModel / CostFunction / TrajectoryType / StateType *)
(*   2. the state-field table (StateFields)                                                     *)
(*   3. the rules: StateType.get_state_type / TrajectoryType.get_trajectory_type (inference of  *)
(*      the trajectory type from the attributes of a state, with and without a desired vehicle  *)
(*      model), TrajectoryType.valid_vehicle_model, SupportedCostFunctions                      *)
(*   4. PlanningProblemSolution: constructor and every setter as a state machine                *)
(*   5. Solution: constructor, planning_problem_solutions setter, scenario_id, computation_time *)
(*      and the derived views (planning_problem_ids, vehicle_ids, cost_ids, trajectory_types,   *)
(*      benchmark_id) over LIVE PlanningProblemSolution objects                                 *)
(*   6. CommonRoadSolutionWriter.dump / write_to_file against a small file system               *)
(*   7. CommonRoadSolutionReader.open vs fromstring and the reader's error table                *)
(* Functional core of the CONTRACT: no variables.  Every operation has an event shape (what the *)
(* harness logs and the model emits); the contract is the pair                                  *)
(*   Clause(st, e)  name of the violated clause of event e in abstract state st ("" = accepted) *)
(*   Post(st, e)    abstract state after e, re-synchronised to what the event reports           *)
(* Where the documentation is silent both behaviours are accepted; these EITHER bands are the   *)
(* branches commented `silent`.                                                                 *)
EXTENDS Integers, Sequences, FiniteSets, TLC

Range(s) == {s[i] : i \in DOMAIN s}
NoDup(s) == \A i, j \in DOMAIN s : i # j => s[i] # s[j]

(* ======================================================================================== *)
(* 1. enumerations                                                                          *)
(* ======================================================================================== *)
(* vehicle_id docstring: "VehicleModel = PM, VehicleType = FORD_ESCORT, Vehicle ID = PM1";  *)
(* benchmark_id docstring: "2nd VehicleType = VW_VANAGON ... [PM1,PM3]"                     *)
VehicleTypeValue == [FORD_ESCORT |-> 1, BMW_320i |-> 2, VW_VANAGON |-> 3, TRUCK |-> 4]
VTypes == DOMAIN VehicleTypeValue
Models == {"PM", "ST", "KS", "MB", "KST"}
Costs  == {"JB1", "SA1", "WX1", "SM1", "SM2", "SM3", "MW1", "TR1"}
Kinds  == Models \cup {"Input", "PMInput"}                   \* names of TrajectoryType = names of StateType
TrajName  == [PM |-> "pmTrajectory", ST |-> "stTrajectory", KS |-> "ksTrajectory", KST |-> "kstTrajectory",
              MB |-> "mbTrajectory", Input |-> "inputVector", PMInput |-> "pmInputVector"]
StateName == [PM |-> "pmState", ST |-> "stState", KS |-> "ksState", KST |-> "kstState",
              MB |-> "mbState", Input |-> "input", PMInput |-> "pmInput"]
(* enums whose member VALUES are part of the interface (ids, xml tags): name -> value as text *)
EnumMembers == [VehicleType    |-> {<<n, ToString(VehicleTypeValue[n])>> : n \in VTypes},
                TrajectoryType |-> {<<k, TrajName[k]>> : k \in Kinds},
                StateType      |-> {<<k, StateName[k]>> : k \in Kinds}]
(* enums of which only the member NAMES are used (vehicle / cost ids); values: pairwise distinct (@unique) *)
EnumNames   == [VehicleModel |-> Models, CostFunction |-> Costs]

EnumClause(e) ==           \* e.members = <<  <<name, value text>>, ... >> in definition order
  IF e.name \in DOMAIN EnumMembers
  THEN IF Range(e.members) # EnumMembers[e.name] \/ ~NoDup(e.members) THEN "X05.Enum/" \o e.name ELSE ""
  ELSE IF e.name \in DOMAIN EnumNames
  THEN IF {m[1] : m \in Range(e.members)} # EnumNames[e.name] \/ Len(e.members) # Cardinality(EnumNames[e.name])
          \/ ~NoDup([i \in DOMAIN e.members |-> e.members[i][2]]) THEN "X05.Enum/" \o e.name ELSE ""
  ELSE "machinery/unknown-enum"

(* ======================================================================================== *)
(* 2. state fields ("Corresponding state fields for trajectory states", time_step last)     *)
(* ======================================================================================== *)
(* the documented ORDER is part of the table ("the indexes have to match" the xml names) *)
KSQ == <<"position", "steering_angle", "velocity", "orientation">>
FieldSeq ==
  [PM  |-> <<"position", "velocity", "velocity_y", "time_step">>,
   ST  |-> KSQ \o <<"yaw_rate", "slip_angle", "time_step">>,
   KS  |-> KSQ \o <<"time_step">>,
   KST |-> KSQ \o <<"hitch_angle", "time_step">>,
   MB  |-> KSQ \o <<"yaw_rate", "roll_angle", "roll_rate", "pitch_angle", "pitch_rate", "velocity_y", "position_z",
                    "velocity_z", "roll_angle_front", "roll_rate_front", "velocity_y_front", "position_z_front",
                    "velocity_z_front", "roll_angle_rear", "roll_rate_rear", "velocity_y_rear", "position_z_rear",
                    "velocity_z_rear", "left_front_wheel_angular_speed", "right_front_wheel_angular_speed",
                    "left_rear_wheel_angular_speed", "right_rear_wheel_angular_speed", "delta_y_f", "delta_y_r",
                    "time_step">>,
   Input   |-> <<"steering_angle_speed", "acceleration", "time_step">>,
   PMInput |-> <<"acceleration", "acceleration_y", "time_step">>]
FieldSet == [k \in Kinds |-> Range(FieldSeq[k])]

FieldsClause(e) ==         \* StateType[k].fields and .xml_fields: the field set, no repetition, time step last, aligned
  IF Range(e.fields) # FieldSet[e.k] \/ ~NoDup(e.fields) THEN "X05.StateFields/names"
  ELSE IF e.fields # FieldSeq[e.k] THEN "X05.StateFields/order"
  ELSE IF e.nxml # Len(e.fields) THEN "X05.StateFields/xml-names-aligned"
  ELSE IF e.ttstate # e.k THEN "X05.StateFields/trajectory-type-state-type"     \* TrajectoryType[k].state_type is StateType[k]
  ELSE ""

(* state classes (and custom states) used as trajectory SHAPES by the model and the harness: token -> attributes *)
ShapeFields ==
  [PM |-> FieldSeq["PM"], ST |-> FieldSeq["ST"], KS |-> FieldSeq["KS"], KST |-> FieldSeq["KST"], MB |-> FieldSeq["MB"],
   Input |-> FieldSeq["Input"], PMInput |-> FieldSeq["PMInput"],
   STD  |-> FieldSeq["ST"] \o <<"front_wheel_angular_speed", "rear_wheel_angular_speed">>,      \* STDState
   KSA  |-> FieldSeq["KS"] \o <<"acceleration">>,                                              \* custom: KS + acceleration
   PMA  |-> FieldSeq["PM"] \o <<"acceleration", "acceleration_y">>,                            \* custom: PM + its inputs
   KSI  |-> FieldSeq["KS"] \o <<"steering_angle_speed", "acceleration">>,                      \* custom: KS + its inputs
   EPM  |-> <<"position", "velocity", "orientation", "acceleration", "time_step">>,            \* ExtendedPMState
   INIT |-> <<"position", "orientation", "velocity", "acceleration", "yaw_rate", "slip_angle", "time_step">>,   \* InitialState
   KSpart |-> FieldSeq["KS"]]                     \* a KSState of which only position and time step are set (the rest None)
ShapeAttrs == [s \in DOMAIN ShapeFields |-> Range(ShapeFields[s])]
Shapes == DOMAIN ShapeAttrs
(* number of attributes that are there but not set (None).  The rules speak of the state's ATTRIBUTES, so the inferred type *)
(* does not depend on it; whether a solution may be built from states with unset fields is silent (accept or reject)    *)
ShapeUnset == [s \in Shapes |-> IF s = "KSpart" THEN 3 ELSE 0]

(* ======================================================================================== *)
(* 3. rules                                                                                 *)
(* ======================================================================================== *)
(* TrajectoryType docstring: "PM | ST | KS | KST | MB -> Corresponding trajectory type for the vehicle models,     *)
(* Input -> InputVector type for ST, KS, and MB vehicle models, PMInput -> InputVector type for PM vehicle model"  *)
Admits(k, m) == \/ k = m
                \/ k = "Input" /\ m \in {"KS", "ST", "MB"}
                \/ k = "PMInput" /\ m = "PM"
(* SupportedCostFunctions: PM = JB1, WX1, MW1; every other model "supports all cost functions" *)
Supported(m) == IF m = "PM" THEN {"JB1", "WX1", "MW1"} ELSE Costs

STE == "exc:StateTypeException"           \* "Given state is not valid!"
SE  == "exc:SolutionException"            \* "... isn't supported for ... model!" / "... is not valid for the trajectory type ...!"
Matches(A) == {k \in Kinds : FieldSet[k] \subseteq A}       \* state types whose fields the state has
Exacts(A)  == {k \in Kinds : FieldSet[k] = A}               \* the state type the attributes correspond to exactly
(* get_state_type(state, desired): "Returns the corresponding StateType for the given State object by matching      *)
(* State object's attributes to the state fields"; desired_vehicle_model: "check if given vehicle_model is         *)
(* supported first".  Acceptable answers (a kind name or STE) for a state with attribute set A:                    *)
StateTypeOK(A, d) ==
  IF d # "None" /\ FieldSet[d] \subseteq A THEN {d}         \* the desired model is supported: it comes first
  ELSE IF Exacts(A) # {} THEN Exacts(A)                     \* the attributes ARE the fields of a type
  ELSE IF Matches(A) = {} THEN {STE}                        \* no type's fields are there
  ELSE Matches(A) \cup {STE}                                \* silent: a state with extra attributes and no exact type
(* get_trajectory_type(trajectory, desired): "based on the StateType of its states" (states of one trajectory have   *)
(* the same attributes: Trajectory asserts it), same rule                                                          *)
StateTypeClause(e) ==      \* e.attrs = attributes of the state, e.desired = "None" / model, e.res = kind / "exc:.."
  IF e.shape \in Shapes /\ Range(e.attrs) # ShapeAttrs[e.shape] THEN "X05.StateClassAttributes"
  ELSE IF e.res \in StateTypeOK(Range(e.attrs), e.desired) THEN ""
  ELSE IF e.desired # "None" /\ FieldSet[e.desired] \subseteq Range(e.attrs) THEN "X05.StateType/desired-model-not-first"
  ELSE IF Exacts(Range(e.attrs)) # {} THEN "X05.StateType/exact-type-not-returned"
  ELSE IF Matches(Range(e.attrs)) = {} THEN "X05.StateType/invalid-state-accepted"
  ELSE "X05.StateType/type-without-its-fields"

ValidVmClause(e) == IF e.res # (IF Admits(e.k, e.m) THEN 1 ELSE 0) THEN "X05.ValidVehicleModel" ELSE ""
SupCostsClause(e) == IF Range(e.costs) # Supported(e.m) \/ ~NoDup(e.costs) THEN "X05.SupportedCostFunctions" ELSE ""

(* ======================================================================================== *)
(* 4. PlanningProblemSolution: object state o = [ppid, m, vt, c, attrs, tt]                 *)
(* ======================================================================================== *)
VehicleId(m, vt) == m \o ToString(VehicleTypeValue[vt])      \* "PM" and FORD_ESCORT -> "PM1"
ObsRec(o) == [ppid |-> o.ppid, m |-> o.m, vt |-> o.vt, c |-> o.c, attrs |-> Range(o.attrs), tt |-> o.tt]
(* what must hold of every object that exists, after ANY sequence of constructor / setter calls *)
ObjInvClause(o) ==
  IF o.tt \notin Kinds \/ o.m \notin Models \/ o.c \notin Costs \/ o.vt \notin VTypes THEN "X05.PpsInvariant/enum-members"
  ELSE IF ~(FieldSet[o.tt] \subseteq o.attrs) THEN "X05.PpsInvariant/trajectory-type-vs-states"
  ELSE IF ~Admits(o.tt, o.m) THEN "X05.PpsInvariant/trajectory-type-vs-vehicle-model"
  ELSE IF o.c \notin Supported(o.m) THEN "X05.PpsInvariant/cost-function-vs-vehicle-model"
  ELSE ""
DerivedClause(x) ==        \* x = logged observation incl. vehicle_id / cost_id
  IF x.vt \in VTypes /\ x.vid # VehicleId(x.m, x.vt) THEN "X05.VehicleId"
  ELSE IF x.cid # x.c THEN "X05.CostId"
  ELSE ObjInvClause(ObsRec(x))

(* outcomes: <<"ok", trajectory type>> or <<"exc", class>> *)
Outcome(r, m, c) == IF r = STE THEN <<"exc", STE>>
                    ELSE IF ~Admits(r, m) \/ c \notin Supported(m) THEN <<"exc", SE>>
                    ELSE <<"ok", r>>
(* the constructor: type inferred with the vehicle model as desired model, then the two checks *)
CtorOutcomes(A, m, c) == {Outcome(r, m, c) : r \in StateTypeOK(A, m)}
(* vehicle_model setter.  trajectory_type is "dynamically assigned when there is a change of trajectory", so a model *)
(* the current type admits must be accepted with the type kept; a model no reading of the states admits, or that     *)
(* does not support the cost function, must be rejected; in between (the current type does not admit the model but   *)
(* the states could be read as a type that does - what the constructor would do) the documentation is silent        *)
SetModelOutcomes(o, m2) ==
  LET cand == {k \in Matches(o.attrs) : Admits(k, m2)} IN
  IF o.c \notin Supported(m2) \/ cand = {} THEN {<<"exc", SE>>}
  ELSE IF Admits(o.tt, m2) THEN {<<"ok", o.tt>>}
  ELSE {<<"exc", SE>>} \cup {<<"ok", k>> : k \in cand}              \* silent
SetCostOutcomes(o, c2) == IF c2 \in Supported(o.m) THEN {<<"ok", o.tt>>} ELSE {<<"exc", SE>>}
(* trajectory setter: re-validates like the constructor does for the object's vehicle model *)
SetTrajOutcomes(o, A2) == CtorOutcomes(A2, o.m, o.c)

Unset(e, allowed) == IF e.unset > 0 THEN allowed \cup {<<"exc", SE>>, <<"exc", STE>>} ELSE allowed     \* silent
Logged(e) == IF e.res = "ok" THEN <<"ok", e.obs.tt>> ELSE <<"exc", e.res>>
OkIn(S)  == \E x \in S : x[1] = "ok"
ExcIn(S) == \E x \in S : x[1] = "exc"
Mismatch(prefix, got, allowed) ==
  IF got \in allowed THEN ""
  ELSE IF got[1] = "ok" /\ ~OkIn(allowed) THEN prefix \o "/invalid-accepted"
  ELSE IF got[1] = "exc" /\ ~ExcIn(allowed) THEN prefix \o "/valid-rejected"
  ELSE IF got[1] = "ok" THEN prefix \o "/trajectory-type"
  ELSE prefix \o "/exception-class"

Has(objs, h) == h \in DOMAIN objs
PClause(objs, e) ==
  IF e.op = "p_new" THEN
     LET A == Range(e.attrs)
         c0 == Mismatch("X05.PpsConstruct", Logged(e), Unset(e, CtorOutcomes(A, e.m, e.c))) IN
     IF e.shape \in Shapes /\ A # ShapeAttrs[e.shape] THEN "X05.StateClassAttributes"
     ELSE IF c0 # "" THEN c0
     ELSE IF e.res # "ok" THEN ""
     ELSE IF ObsRec(e.obs) # [ppid |-> e.ppid, m |-> e.m, vt |-> e.vt, c |-> e.c, attrs |-> A, tt |-> e.obs.tt]
          THEN "X05.PpsConstruct/fields"
     ELSE DerivedClause(e.obs)
  ELSE IF ~Has(objs, e.h) THEN "driver/unknown-object"
  ELSE
     LET o == objs[e.h]
         x == ObsRec(e.obs)
         kept(pre) == IF e.res # "ok" THEN (IF x # o THEN pre \o "/reject-not-atomic" ELSE "") ELSE "" IN
     CASE e.op = "p_model" ->
            LET c0 == Mismatch("X05.PpsSetVehicleModel", Logged(e), SetModelOutcomes(o, e.m)) IN
            IF c0 # "" THEN c0 ELSE IF e.res # "ok" THEN kept("X05.PpsSetVehicleModel")
            ELSE IF x # [o EXCEPT !.m = e.m, !.tt = e.obs.tt] THEN "X05.PpsSetVehicleModel/effect" ELSE DerivedClause(e.obs)
       [] e.op = "p_cost" ->
            LET c0 == Mismatch("X05.PpsSetCostFunction", Logged(e), SetCostOutcomes(o, e.c)) IN
            IF c0 # "" THEN c0 ELSE IF e.res # "ok" THEN kept("X05.PpsSetCostFunction")
            ELSE IF x # [o EXCEPT !.c = e.c] THEN "X05.PpsSetCostFunction/effect" ELSE DerivedClause(e.obs)
       [] e.op = "p_traj" ->
            LET A2 == Range(e.attrs)
                c0 == Mismatch("X05.PpsSetTrajectory", Logged(e), Unset(e, SetTrajOutcomes(o, A2))) IN
            IF e.shape \in Shapes /\ A2 # ShapeAttrs[e.shape] THEN "X05.StateClassAttributes"
            ELSE IF c0 # "" THEN c0 ELSE IF e.res # "ok" THEN kept("X05.PpsSetTrajectory")
            ELSE IF x # [o EXCEPT !.attrs = A2, !.tt = e.obs.tt] THEN "X05.PpsSetTrajectory/effect" ELSE DerivedClause(e.obs)
       [] e.op = "p_vtype" ->        \* plain attributes: any member / any id is taken over
            IF e.res # "ok" THEN "X05.PpsSetVehicleType/raises"
            ELSE IF x # [o EXCEPT !.vt = e.vt] THEN "X05.PpsSetVehicleType/effect" ELSE DerivedClause(e.obs)
       [] e.op = "p_ppid" ->
            IF e.res # "ok" THEN "X05.PpsSetPlanningProblemId/raises"
            ELSE IF x # [o EXCEPT !.ppid = e.ppid] THEN "X05.PpsSetPlanningProblemId/effect" ELSE DerivedClause(e.obs)
       [] e.op = "p_get" ->          \* pure observation of a live object
            IF x # o THEN "X05.PpsObserve/changed-without-call" ELSE DerivedClause(e.obs)
       [] OTHER -> "machinery/unknown-pps-op"

POps == {"p_new", "p_model", "p_cost", "p_traj", "p_vtype", "p_ppid", "p_get"}
(* objects are numbered 1, 2, ... in creation order; a rejected constructor call creates nothing *)
PPost(objs, e) ==
  IF e.op = "p_new" THEN (IF e.res = "ok" THEN [h \in DOMAIN objs \cup {e.h} |-> IF h = e.h THEN ObsRec(e.obs) ELSE objs[h]]
                          ELSE objs)
  ELSE IF Has(objs, e.h) THEN [objs EXCEPT ![e.h] = ObsRec(e.obs)] ELSE objs

(* ======================================================================================== *)
(* 5. Solution: S = [live, items (handles of the contained objects, in order), scen]        *)
(* ======================================================================================== *)
(* scenario ids used as tokens; their text is C13's subject (BenchmarkId.tla), here a table *)
ScenText == [T    |-> [sid |-> "USA_US101-1_1_T-1", ver |-> "2020a"],
             coop |-> [sid |-> "C-USA_Lanker-1_2_T-1", ver |-> "2020a"],
             bare |-> [sid |-> "ZAM_Tjunction-1", ver |-> "2018b"]]
Scens == DOMAIN ScenText

RECURSIVE JoinFrom(_, _, _)
JoinFrom(ws, i, sep) == IF i > Len(ws) THEN "" ELSE (IF i > 1 THEN sep ELSE "") \o ws[i] \o JoinFrom(ws, i + 1, sep)
ListText(ws) == IF Len(ws) = 1 THEN ws[1] ELSE "[" \o JoinFrom(ws, 1, ",") \o "]"
(* benchmark_id docstring: "PM1:JB1:TEST:2020a", collaborative "[PM1,PM3]:[JB1,SA1]:TEST:2020a" *)
BidText(vids, cids, sid, ver) == ListText(vids) \o ":" \o ListText(cids) \o ":" \o sid \o ":" \o ver

NoSol == [live |-> FALSE, items |-> <<>>, scen |-> "T"]
IdsOf(objs, q) == [i \in DOMAIN q |-> objs[q[i]].ppid]
VidsOf(objs, q) == [i \in DOMAIN q |-> VehicleId(objs[q[i]].m, objs[q[i]].vt)]
CidsOf(objs, q) == [i \in DOMAIN q |-> objs[q[i]].c]
TtsOf(objs, q)  == [i \in DOMAIN q |-> objs[q[i]].tt]
ExpectedBid(objs, q, scen) == BidText(VidsOf(objs, q), CidsOf(objs, q), ScenText[scen].sid, ScenText[scen].ver)

(* the derived views list the CURRENT fields of the contained objects ("1st PlanningProblemSolution Vehicle ID = PM1, *)
(* 2nd ... = PM3 -> [PM1, PM3]"), whatever was done to the objects or the solution since construction              *)
ViewClause(objs, scen, v) ==
  LET q == v.items IN
  IF \E i \in DOMAIN q : ~Has(objs, q[i]) THEN "X05.SolutionContents/foreign-object"
  ELSE IF v.ppids # IdsOf(objs, q) THEN "X05.PlanningProblemIds"
  ELSE IF v.vids # VidsOf(objs, q) THEN "X05.VehicleIds"
  ELSE IF v.cids # CidsOf(objs, q) THEN "X05.CostIds"
  ELSE IF v.tts # TtsOf(objs, q) THEN "X05.TrajectoryTypes"
  ELSE IF v.sid # ScenText[scen].sid \/ v.ver # ScenText[scen].ver THEN "X05.ScenarioId"
  ELSE IF q # <<>> /\ v.bid # ExpectedBid(objs, q, scen) THEN "X05.BenchmarkId"       \* silent: id of an empty solution
  ELSE ""

(* a list of solutions for pairwise different planning problems is stored as given (order kept); repeated ids: silent - *)
(* reject, or keep exactly one of the listed solutions per id                                                         *)
ContentsClause(pre, objs, q, e) ==
  IF \E i \in DOMAIN q : ~Has(objs, q[i]) THEN "driver/unknown-object"
  ELSE IF NoDup(IdsOf(objs, q))
  THEN IF e.res # "ok" THEN pre \o "/valid-rejected"
       ELSE IF e.view.items # q THEN pre \o "/contents-or-order" ELSE ""
  ELSE IF e.res # "ok" THEN ""                                                       \* silent
       ELSE IF ~(Range(e.view.items) \subseteq Range(q)) \/ ~NoDup(e.view.items)
               \/ ~NoDup(IdsOf(objs, e.view.items)) \/ Range(IdsOf(objs, e.view.items)) # Range(IdsOf(objs, q))
            THEN pre \o "/duplicate-ids" ELSE ""

(* computation_time: "<Solution> computation_time provided as type ..., but expected type float", "needs to be positive" *)
CtRule == [None |-> "ok", posint |-> "ok", posfloat |-> "ok", npfloat |-> "ok", npint |-> "ok",
           zero |-> "rej", zerof |-> "rej", neg |-> "rej", negf |-> "rej", text |-> "rej",
           nan |-> "either", inf |-> "either", bool |-> "either"]                    \* silent: not-a-number, infinity, True
CtTokens == DOMAIN CtRule

SClause(S, objs, e) ==
  CASE e.op = "s_new" ->
         LET c0 == ContentsClause("X05.SolutionConstruct", objs, e.q, e) IN
         IF c0 # "" THEN c0 ELSE IF e.res # "ok" THEN "" ELSE ViewClause(objs, e.scen, e.view)
    [] ~S.live /\ e.op # "s_new" -> "driver/no-solution"
    [] e.op = "s_set" ->
         LET c0 == ContentsClause("X05.SolutionSetSolutions", objs, e.q, e) IN
         IF c0 # "" THEN c0
         ELSE IF e.res # "ok" THEN (IF e.view.items # S.items THEN "X05.SolutionSetSolutions/reject-not-atomic" ELSE "")
         ELSE ViewClause(objs, S.scen, e.view)
    [] e.op = "s_scen" ->
         IF e.res # "ok" THEN "X05.SolutionSetScenarioId/raises"
         ELSE IF e.view.items # S.items THEN "X05.SolutionSetScenarioId/contents" ELSE ViewClause(objs, e.scen, e.view)
    [] e.op = "s_ct" ->
         LET r == CtRule[e.ct]
             okc == e.res = "ok" /\ e.ctobs = "set"
             rej == e.res = "exc:AssertionError" /\ e.ctobs = "kept" IN
         IF e.view.items # S.items THEN "X05.ComputationTime/contents"
         ELSE IF r = "ok" /\ ~okc THEN "X05.ComputationTime/valid-rejected"
         ELSE IF r = "rej" /\ ~rej THEN (IF e.res = "ok" THEN "X05.ComputationTime/invalid-accepted"
                                         ELSE IF e.ctobs # "kept" THEN "X05.ComputationTime/reject-not-atomic"
                                         ELSE "X05.ComputationTime/exception-class")
         ELSE IF r = "either" /\ ~(okc \/ (e.res # "ok" /\ e.ctobs = "kept")) THEN "X05.ComputationTime/reject-not-atomic"
         ELSE ViewClause(objs, S.scen, e.view)
    [] e.op = "s_obs" ->             \* observation after a call on a contained object: same contents, views follow the objects
         IF e.view.items # S.items THEN "X05.SolutionContents/changed-without-call" ELSE ViewClause(objs, S.scen, e.view)
    [] OTHER -> "machinery/unknown-solution-op"

SOps == {"s_new", "s_set", "s_scen", "s_ct", "s_obs"}
SPost(S, e) ==
  IF e.op = "s_new" THEN (IF e.res = "ok" THEN [live |-> TRUE, items |-> e.view.items, scen |-> e.scen] ELSE S)
  ELSE IF ~S.live THEN S
  ELSE IF e.op = "s_scen" /\ e.res = "ok" THEN [S EXCEPT !.items = e.view.items, !.scen = e.scen]
  ELSE [S EXCEPT !.items = e.view.items]

(* ======================================================================================== *)
(* 6. writer and files.  W = [live, doc] (what the solution looked like when the writer was *)
(*    created); a file is [n |-> path relative to the sandbox, k |-> "xml" / "foreign" /    *)
(*    "empty" / "garbage", bid, tr]; a document is [bid, tr |-> << <<trajectory tag, id>> >>]*)
(* ======================================================================================== *)
DocOf(objs, q, scen) == [bid |-> ExpectedBid(objs, q, scen),
                         tr  |-> [i \in DOMAIN q |-> <<TrajName[objs[q[i]].tt], objs[q[i]].ppid>>]]
NoWriter == [live |-> FALSE, doc |-> [bid |-> "", tr |-> <<>>]]
(* "Creates the xml file for the given solution that can be dumped as string, or written to file later on": after a  *)
(* change of the solution between creating the writer and dumping, the snapshot and the current solution are both    *)
(* accepted (silent), for the content and for the default file name                                                 *)
DocsOK(W, cur) == {W.doc, cur}
DefaultName(bid) == "solution_" \o bid \o ".xml"              \* "sets the name as 'solution_BENCHMARKID.xml'"

(* output_path tokens: the sandbox has the directories "" (root), "sub", "cwd" (the working directory), the regular   *)
(* file "plain" and the foreign files old.xml in each directory.  prefix = where the file lands, kind = what the path is *)
DirTable == [root     |-> [prefix |-> "",         kind |-> "dir"],
             rootsl   |-> [prefix |-> "",         kind |-> "dir"],       \* with a trailing slash
             sub      |-> [prefix |-> "sub/",     kind |-> "dir"],
             default  |-> [prefix |-> "cwd/",     kind |-> "dir"],       \* output_path not given: "the same folder where it is called from"
             dot      |-> [prefix |-> "cwd/",     kind |-> "dir"],       \* "."
             emptystr |-> [prefix |-> "cwd/",     kind |-> "unclear"],   \* "": silent
             missing  |-> [prefix |-> "missing/", kind |-> "missing"],
             nested   |-> [prefix |-> "n1/n2/",   kind |-> "missing"],
             file     |-> [prefix |-> "plain/",   kind |-> "file"]]
DirTokens == DOMAIN DirTable
(* filename tokens; "subdir" carries a directory component (sub/b.xml), which exists below root only *)
FileTable == [None |-> "", a |-> "a.xml", old |-> "old.xml", subdir |-> "sub/b.xml"]
FileTokens == DOMAIN FileTable
PathKind(d, f) == IF f = "subdir" /\ DirTable[d].kind = "dir" /\ DirTable[d].prefix # "" THEN "missing"    \* sub/sub, cwd/sub
                  ELSE DirTable[d].kind

FileNames(FS) == {f.n : f \in FS}
Written(FS, t, doc) == {f \in FS : f.n # t} \cup {[n |-> t, k |-> "xml", bid |-> doc.bid, tr |-> doc.tr]}
(* write_to_file(output_path, filename, overwrite, pretty): the possible file systems after a successful write *)
WriteResults(FS, W, cur, d, f) ==
  LET names == IF f = "None" THEN {DefaultName(x.bid) : x \in DocsOK(W, cur)} ELSE {FileTable[f]}
  IN {Written(FS, DirTable[d].prefix \o n, doc) : n \in names, doc \in DocsOK(W, cur)}
Targets(W, cur, d, f) == {DirTable[d].prefix \o n : n \in (IF f = "None" THEN {DefaultName(x.bid) : x \in DocsOK(W, cur)}
                                                          ELSE {FileTable[f]})}

WriteClause(FS, W, cur, e) ==
  LET files == Range(e.files)
      kind  == PathKind(e.dir, e.fname)
      tg    == Targets(W, cur, e.dir, e.fname)
      allEx == tg \subseteq FileNames(FS)
      someEx == tg \cap FileNames(FS) # {}
      good  == e.res = "ok" /\ files \in WriteResults(FS, W, cur, e.dir, e.fname)
      failed == e.res # "ok" /\ files = FS IN
  IF kind = "file" THEN (IF e.res = "ok" THEN "X05.WriteToFile/path-through-a-file-accepted"
                         ELSE IF files # FS THEN "X05.WriteToFile/failed-write-changed-files" ELSE "")
  ELSE IF kind \in {"missing", "unclear"}                   \* silent: create the directory or refuse
       THEN (IF good \/ failed THEN "" ELSE IF e.res = "ok" THEN "X05.WriteToFile/content-or-name"
             ELSE "X05.WriteToFile/failed-write-changed-files")
  ELSE IF e.ow = 0 /\ allEx                                 \* "File %s already exists. If you want to overwrite it set overwrite=True."
       THEN (IF e.res = "ok" THEN "X05.WriteToFile/existing-file-overwritten"
             ELSE IF files # FS THEN "X05.WriteToFile/failed-write-changed-files"
             ELSE IF e.res # "exc:FileExistsError" THEN "X05.WriteToFile/exception-class" ELSE "")
  ELSE IF e.ow = 0 /\ someEx                                \* silent: only one of snapshot / current default names exists
       THEN (IF good \/ failed THEN "" ELSE IF e.res = "ok" THEN "X05.WriteToFile/content-or-name"
             ELSE "X05.WriteToFile/failed-write-changed-files")
  ELSE IF e.res # "ok" THEN (IF files # FS THEN "X05.WriteToFile/valid-write-raises-and-changes-files"
                             ELSE "X05.WriteToFile/valid-write-raises")
  ELSE IF ~good THEN "X05.WriteToFile/content-or-name"
  ELSE ""

(* a parsed solution: [res, bid, sid, ver, ppids, vids, cids, tts, deep]; of a failed read only res is meaningful *)
ReadClause(f, r) ==
  IF f.k # "xml" THEN (IF r.res = "ok" THEN "X05.Reader/not-a-solution-accepted" ELSE "")
  ELSE IF ~NoDup([i \in DOMAIN f.tr |-> f.tr[i][2]]) THEN ""         \* silent: a file with two trajectories for one planning problem
  ELSE IF r.res # "ok" THEN "X05.Reader/written-file-rejected"
  ELSE IF r.bid # f.bid THEN "X05.Reader/benchmark-id"
  ELSE IF Len(r.tts) # Len(f.tr) \/ Len(r.ppids) # Len(f.tr) THEN "X05.Reader/trajectories"
  ELSE IF \E i \in DOMAIN f.tr : r.tts[i] \notin Kinds \/ <<TrajName[r.tts[i]], r.ppids[i]>> # f.tr[i] THEN "X05.Reader/trajectories"
  ELSE IF r.bid # BidText(r.vids, r.cids, r.sid, r.ver) THEN "X05.Reader/ids-vs-benchmark-id"
  ELSE ""

WClause(FS, W, cur, hasSol, e) ==
  CASE e.op = "w_new" ->
         IF ~hasSol THEN "driver/no-solution"
         ELSE IF cur.tr = <<>> THEN ""                                                \* silent: writer for an empty solution
         ELSE IF e.res # "ok" THEN "X05.Writer/raises" ELSE ""
    [] ~W.live /\ e.op \in {"w_dump", "w_write"} -> "driver/no-writer"
    [] e.op = "w_dump" ->            \* "Dumps the Solution XML as string" (-> str), pretty or not
         IF e.res # "ok" THEN "X05.Dump/raises"
         ELSE IF e.type # "str" THEN "X05.Dump/not-a-string"
         ELSE IF e.doc.root # "CommonRoadSolution" \/ [bid |-> e.doc.bid, tr |-> e.doc.tr] \notin DocsOK(W, cur) THEN "X05.Dump/content"
         ELSE ""
    [] e.op = "w_write" -> WriteClause(FS, W, cur, e)
    [] e.op = "r_both" ->            \* open(path) and fromstring(text of the same file)
         LET S0 == {f \in FS : f.n = e.file} IN
         IF Range(e.files) # FS THEN "X05.Reader/changes-files"
         ELSE IF S0 = {} THEN "driver/unknown-file"
         ELSE IF e.a # e.b THEN "X05.ReaderEquivalence/open-vs-fromstring"
         ELSE ReadClause(CHOOSE f \in S0 : TRUE, e.a)
    [] OTHER -> "machinery/unknown-writer-op"

WOps == {"w_new", "w_dump", "w_write", "r_both"}
WPost(W, cur, e) == IF e.op = "w_new" THEN (IF e.res = "ok" THEN [live |-> TRUE, doc |-> cur] ELSE W) ELSE W
FPost(FS, e) == IF e.op \in {"w_write", "r_both", "fs_init"} THEN Range(e.files) ELSE FS

(* ======================================================================================== *)
(* 7. the reader's error table: one defect injected into a valid single-trajectory document *)
(* ======================================================================================== *)
RE == "exc:SolutionReaderException"
Defects == {"none",
            "no-benchmark-id",                                \* "Solution xml does not have a benchmark id!" (SolutionException)
            "empty-benchmark-id",
            "segments-3", "segments-5",                       \* "Invalid Benchmark ID: "
            "vehicle-unknown-model", "vehicle-type-0", "vehicle-type-7", "vehicle-type-letter", "vehicle-too-short",
            "vehicle-too-long", "vehicle-lowercase", "vehicle-no-type",          \* "Invalid Vehicle ID: "
            "cost-unknown",                                   \* "Invalid Cost ID: "
            "trajectory-tag-unknown",                         \* "Invalid Trajectory Type: "
            "state-tag-wrong",                                \* "Given xml node is not a '%s' node!"
            "leaf-missing",                                   \* "Element '%s' couldn't be found in the xml node!"
            "model-trajectory-mismatch", "cost-unsupported",  \* the PlanningProblemSolution rules
            "more-ids-than-trajectories", "fewer-ids-than-trajectories", "no-planning-problem-id", "empty-trajectory",
            "time-not-integer"}                               \* silent
ReaderExpect(d) ==
  CASE d = "none" -> {"ok"}
    [] d = "no-benchmark-id" -> {SE}
    [] d = "empty-benchmark-id" -> {SE, RE}
    [] d \in {"segments-3", "segments-5", "vehicle-unknown-model", "vehicle-type-0", "vehicle-type-7",
              "vehicle-type-letter", "vehicle-too-short", "vehicle-too-long", "vehicle-lowercase", "vehicle-no-type",
              "cost-unknown", "trajectory-tag-unknown", "state-tag-wrong", "leaf-missing"} -> {RE}
    [] d \in {"model-trajectory-mismatch", "cost-unsupported"} -> {SE, RE}
    [] OTHER -> {}                                            \* silent: anything
BadClause(e) ==
  IF e.defect \notin Defects THEN "machinery/unknown-defect"
  ELSE IF e.a # e.b THEN "X05.ReaderEquivalence/open-vs-fromstring"
  ELSE IF ReaderExpect(e.defect) = {} \/ e.a \in ReaderExpect(e.defect) THEN ""
  ELSE IF e.a = "ok" THEN "X05.ReaderErrors/invalid-document-accepted"
  ELSE IF e.defect = "none" THEN "X05.ReaderErrors/valid-document-rejected"
  ELSE "X05.ReaderErrors/exception-class"

(* date: "The date solution was produced. Default=datetime.today()" - a solution built without a date carries the *)
(* time of its construction (e.fresh = 1: not older than the moment just before the constructor call)              *)
DateClause(e) == IF e.fresh # 1 THEN "X05.SolutionDate/default-is-not-the-construction-time" ELSE ""

(* ======================================================================================== *)
TabOps == {"enum", "fields", "st_type", "valid_vm", "sup_costs", "r_bad", "s_date"}
Empty == [objs |-> <<>>, S |-> NoSol, W |-> NoWriter, FS |-> {}]
Cur(st) == IF st.S.live /\ \A i \in DOMAIN st.S.items : Has(st.objs, st.S.items[i])
           THEN DocOf(st.objs, st.S.items, st.S.scen) ELSE NoWriter.doc
Clause(st, e) ==
  CASE e.op = "enum"      -> EnumClause(e)
    [] e.op = "fields"    -> FieldsClause(e)
    [] e.op = "st_type"   -> StateTypeClause(e)
    [] e.op = "valid_vm"  -> ValidVmClause(e)
    [] e.op = "sup_costs" -> SupCostsClause(e)
    [] e.op = "r_bad"     -> BadClause(e)
    [] e.op = "s_date"    -> DateClause(e)
    [] e.op = "fs_init"   -> ""
    [] e.op \in POps      -> PClause(st.objs, e)
    [] e.op \in SOps      -> SClause(st.S, st.objs, e)
    [] e.op \in WOps      -> WClause(st.FS, st.W, Cur(st), st.S.live, e)
    [] OTHER              -> "machinery/unknown-op"
Post(st, e) ==
  [objs |-> IF e.op \in POps THEN PPost(st.objs, e) ELSE st.objs,
   S    |-> IF e.op \in SOps THEN SPost(st.S, e) ELSE st.S,
   W    |-> IF e.op \in WOps THEN WPost(st.W, Cur(st), e)
            ELSE IF e.op = "s_new" /\ e.res = "ok" THEN NoWriter ELSE st.W,      \* a writer belongs to the solution it was made for
   FS   |-> FPost(st.FS, e)]

(* ---- laws of the contract operators (checked by TLC in MC_SolutionRules) ---------------- *)
(* every vehicle model admits its own trajectory type and exactly one input type *)
LawAdmits == \A m \in Models : Admits(m, m) /\ Cardinality({k \in {"Input", "PMInput"} : Admits(k, m)}) = (IF m = "KST" THEN 0 ELSE 1)
(* the state classes of the seven types are told apart: exact types are unique, and a state of type k is of type k *)
LawFieldsDistinct == \A j, k \in Kinds : FieldSet[j] = FieldSet[k] => j = k
LawExactUnique    == \A s \in Shapes : Cardinality(Exacts(ShapeAttrs[s])) <= 1
LawOwnType        == \A k \in Kinds : StateTypeOK(FieldSet[k], "None") = {k}
                                      /\ \A m \in Models : StateTypeOK(FieldSet[k], m) = (IF FieldSet[m] \subseteq FieldSet[k] THEN {m} ELSE {k})
(* a desired model that is supported wins; the answer never names a type whose fields the state lacks *)
LawAnswerHasFields == \A s \in Shapes : \A d \in Models \cup {"None"} :
                         \A r \in StateTypeOK(ShapeAttrs[s], d) : r = STE \/ FieldSet[r] \subseteq ShapeAttrs[s]
(* whatever the constructor accepts satisfies the object invariant *)
LawCtorInv == \A s \in Shapes : \A m \in Models : \A c \in Costs : \A x \in CtorOutcomes(ShapeAttrs[s], m, c) :
                 x[1] = "ok" => ObjInvClause([ppid |-> 1, m |-> m, vt |-> "TRUCK", c |-> c, attrs |-> ShapeAttrs[s], tt |-> x[2]]) = ""
(* for the seven documented state classes the constructor's verdict is determinate *)
LawCtorDeterminate == \A k \in Kinds : \A m \in Models : \A c \in Costs : Cardinality(CtorOutcomes(FieldSet[k], m, c)) = 1
(* benchmark id text: single ids bare, several in brackets *)
LawBidText == /\ BidText(<<"PM1">>, <<"JB1">>, "TEST", "2020a") = "PM1:JB1:TEST:2020a"
              /\ BidText(<<"PM1", "PM3">>, <<"JB1", "SA1">>, "TEST", "2020a") = "[PM1,PM3]:[JB1,SA1]:TEST:2020a"
              /\ VehicleId("PM", "FORD_ESCORT") = "PM1" /\ VehicleId("PM", "VW_VANAGON") = "PM3"
=================================================================================
