------------------------------ MODULE SpatialIndex ------------------------------
(* C06 - spatial lookups agree with the geometry they index.                                          *)
(*                                                                                                    *)
(* Functional core, written from the statement (not from lanelet.py / shape.py).  NO VARIABLES.       *)
(*                                                                                                    *)
(* All coordinates are DOUBLED integers (X = 2x): lattice points are even, cell centres odd.          *)
(*   point    <<X, Y>>                                                                                *)
(*   ring     sequence of points, a simple polygon, either orientation, NOT closed                    *)
(*            (a lanelet's ring = right boundary followed by the reversed left boundary)              *)
(*   rot      <<c, s, den>> with c^2 + s^2 = den^2 : rotation by atan2(s, c)                          *)
(*   shapes   [k |-> "rect", c |-> centre, l |-> length, w |-> width, rot |-> rot]                    *)
(*                 l, w are the REAL integer sizes = the half extents in doubled coordinates          *)
(*            [k |-> "disc", c |-> centre, r |-> doubled radius]                                      *)
(*            [k |-> "poly", v |-> ring]                                                              *)
(*            [k |-> "group", ms |-> sequence of rect / disc / poly]           (union)                *)
(*   network  sequence of [id |-> lanelet id, v |-> ring]                                             *)
(* Verdicts are three-valued.  "EITHER" is produced ONLY in the bands declared here:                  *)
(*   (B1) EXPORTED disc geometry (a polygonal approximation by design): distance to the centre in     *)
(*        [0.99 r, 1.01 r].  Circle.contains_point is exact on this data: no band.                    *)
(*   (B2) pure boundary contact of a rectangle whose orientation is not 0 (sin/cos of the float angle *)
(*        carry ~1e-16 noise, also for quarter turns), and of lanelets that went through a            *)
(*        translate_rotate with a non-zero quarter turn ("noisy" networks).                           *)
(* Boundary contacts of axis-parallel integer geometry are exact and decided (closed sets).           *)
EXTENDS Integers, Sequences, FiniteSets, TLC, Json

Verdict == {"T", "F", "EITHER"}
B3(b)   == IF b THEN "T" ELSE "F"
Any3(S) == IF "T" \in S THEN "T" ELSE IF "EITHER" \in S THEN "EITHER" ELSE "F"      \* union, Any3({}) = "F"
Rank(x) == CASE x = "F" -> 0 [] x = "EITHER" -> 1 [] x = "T" -> 2
Compat(b, v) == v = "EITHER" \/ (b = 1 /\ v = "T") \/ (b = 0 /\ v = "F")            \* logged 0/1 against a verdict

Min(a, b) == IF a <= b THEN a ELSE b
Max(a, b) == IF a <= b THEN b ELSE a
Abs(x)    == IF x < 0 THEN -x ELSE x
Sgn(x)    == IF x > 0 THEN 1 ELSE IF x < 0 THEN -1 ELSE 0
Range(q)  == {q[i] : i \in DOMAIN q}

(* ------------------------------ exact lattice predicates (DESIGN A.4) -------------------------------- *)
Nxt(P, i)      == P[(i % Len(P)) + 1]
Cross(a, b, p) == (b[1] - a[1]) * (p[2] - a[2]) - (b[2] - a[2]) * (p[1] - a[1])
Dot(a, b, p)   == (b[1] - a[1]) * (p[1] - a[1]) + (b[2] - a[2]) * (p[2] - a[2])
Len2(a, b)     == (b[1] - a[1]) * (b[1] - a[1]) + (b[2] - a[2]) * (b[2] - a[2])
OnSeg(a, b, p) == /\ Cross(a, b, p) = 0
                  /\ Min(a[1], b[1]) <= p[1] /\ p[1] <= Max(a[1], b[1])
                  /\ Min(a[2], b[2]) <= p[2] /\ p[2] <= Max(a[2], b[2])
Crosses(a, b, p) == /\ (a[2] > p[2]) # (b[2] > p[2])
                    /\ LET d == b[2] - a[2]  lhs == (p[1] - a[1]) * d  rhs == (b[1] - a[1]) * (p[2] - a[2])
                       IN IF d > 0 THEN lhs < rhs ELSE lhs > rhs
OnBoundary(P, p)   == \E i \in 1..Len(P) : OnSeg(P[i], Nxt(P, i), p)
OddCross(P, p)     == Cardinality({i \in 1..Len(P) : Crosses(P[i], Nxt(P, i), p)}) % 2 = 1      \* crossing number
InPoly(P, p)       == OnBoundary(P, p) \/ OddCross(P, p)                                       \* closed set
InPolyStrict(P, p) == ~OnBoundary(P, p) /\ OddCross(P, p)                                      \* interior

(* closed segments ab, cd meet / cross properly (each strictly separates the end points of the other) *)
SegCross(a, b, c, d) == /\ Sgn(Cross(c, d, a)) * Sgn(Cross(c, d, b)) < 0
                        /\ Sgn(Cross(a, b, c)) * Sgn(Cross(a, b, d)) < 0
SegMeet(a, b, c, d)  == \/ SegCross(a, b, c, d)
                        \/ OnSeg(c, d, a) \/ OnSeg(c, d, b) \/ OnSeg(a, b, c) \/ OnSeg(a, b, d)

(* closed polygons meet: a vertex of one lies in the other, or two edges meet *)
PolyMeet(P, Q) == \/ \E i \in 1..Len(P) : InPoly(Q, P[i])
                  \/ \E j \in 1..Len(Q) : InPoly(P, Q[j])
                  \/ \E i \in 1..Len(P), j \in 1..Len(Q) : SegMeet(P[i], Nxt(P, i), Q[j], Nxt(Q, j))
(* a WITNESS that the interiors overlap (sufficient, robust against 1e-16 perturbations of either polygon) *)
PolyStrong(P, Q) == \/ \E i \in 1..Len(P) : InPolyStrict(Q, P[i])
                    \/ \E j \in 1..Len(Q) : InPolyStrict(P, Q[j])
                    \/ \E i \in 1..Len(P), j \in 1..Len(Q) : SegCross(P[i], Nxt(P, i), Q[j], Nxt(Q, j))
Scale(P, k)  == [i \in DOMAIN P |-> <<k * P[i][1], k * P[i][2]>>]
ScaleP(p, k) == <<k * p[1], k * p[2]>>

(* squared distance of c to the closed segment ab as a fraction <<num, den>> (projection clamped to the segment) *)
SegDist2(a, b, c) == LET t == Dot(a, b, c)  L == Len2(a, b) IN
                     IF t <= 0 THEN <<Len2(a, c), 1>> ELSE IF t >= L THEN <<Len2(b, c), 1>>
                     ELSE <<Cross(a, b, c) * Cross(a, b, c), L>>
(* nd[1]/nd[2] <= (k1/k2) * r2 / h  (k1/k2 < 2, k2 = 10000) *)
LeqFracH(nd, k1, k2, r2, h) ==            \* h * nd[1] * k2 <= k1 * r2 * nd[2], evaluated without any product above 2^31:
    LET B == r2 * nd[2] IN                \* A <= floor(B * k1 / k2) with B = qb * k2 + rb  (B < 2^30 / 1.03 for all geometry used here)
    IF nd[1] > (2 * B) \div h THEN FALSE
    ELSE h * nd[1] <= (B \div k2) * k1 + ((B % k2) * k1) \div k2
LeqFrac(nd, k1, k2, r2)     == LeqFracH(nd, k1, k2, r2, 1)

(* ------------------------------ rotations and rectangles --------------------------------------------- *)
Id       == <<1, 0, 1>>
Quarter  == <<Id, <<0, 1, 1>>, <<-1, 0, 1>>, <<0, -1, 1>>>>                       \* q quarter turns = Quarter[q % 4 + 1]
Pyth     == {<<3, 4, 5>>, <<4, 3, 5>>, <<-3, 4, 5>>, <<-4, 3, 5>>, <<3, -4, 5>>, <<4, -3, 5>>, <<-3, -4, 5>>, <<-4, -3, 5>>}
Rots     == Range(Quarter) \cup Pyth
IsRot(r) == r[3] > 0 /\ r[1] * r[1] + r[2] * r[2] = r[3] * r[3]
ExactRot(r) == r = Id                        \* only orientation 0.0 gives exact float vertices
(* corners of the l x w box at pose (c, rot), in coordinates scaled by den (doubled coordinates times den) *)
RectCorner(s, sx, sy) == <<s.rot[3] * s.c[1] + s.rot[1] * sx * s.l - s.rot[2] * sy * s.w,
                           s.rot[3] * s.c[2] + s.rot[2] * sx * s.l + s.rot[1] * sy * s.w>>
RectRing(s) == <<RectCorner(s, -1, -1), RectCorner(s, -1, 1), RectCorner(s, 1, 1), RectCorner(s, 1, -1)>>
(* the DEFINING set of the box: p - c expressed in the box frame (times den) lies within the half extents *)
RectU(s, p) == LET dx == p[1] - s.c[1]  dy == p[2] - s.c[2] IN
               <<s.rot[1] * dx + s.rot[2] * dy, s.rot[1] * dy - s.rot[2] * dx>>
InRect(s, p)       == LET u == RectU(s, p) IN Abs(u[1]) <= s.rot[3] * s.l /\ Abs(u[2]) <= s.rot[3] * s.w
InRectStrict(s, p) == LET u == RectU(s, p) IN Abs(u[1]) <  s.rot[3] * s.l /\ Abs(u[2]) <  s.rot[3] * s.w
InDisc(s, p)       == Len2(s.c, p) <= s.r * s.r

(* ------------------------------ part 2: a shape and the set it denotes ------------------------------- *)
(* ContainsPoint3: the point-containment test against the DEFINING set.  noisy: the shape's parameters went through a  *)
(* rotation by a float angle (translate_rotate with a non-zero quarter turn): points exactly ON the boundary -> band (B2) *)
PrimContains3(s, p, noisy) ==
    CASE s.k = "rect" -> IF InRectStrict(s, p) THEN "T" ELSE IF ~InRect(s, p) THEN "F"
                         ELSE IF ExactRot(s.rot) /\ ~noisy THEN "T" ELSE "EITHER"                \* band (B2)
      [] s.k = "disc" -> IF noisy /\ Len2(s.c, p) = s.r * s.r THEN "EITHER" ELSE B3(InDisc(s, p)) \* exact, no band unless noisy
      [] s.k = "poly" -> IF noisy /\ OnBoundary(s.v, p) THEN "EITHER" ELSE B3(InPoly(s.v, p))
ContainsPoint3(s, p, noisy) == IF s.k = "group" THEN Any3({PrimContains3(s.ms[i], p, noisy) : i \in DOMAIN s.ms})
                               ELSE PrimContains3(s, p, noisy)
(* Exported3: the exported planar geometry covers the point; discs are exported as polygonal approximations.        *)
(* h = 1 is the contract.  h = 4 is the NAMED DEVIATION "half-radius" (r^2 / 4): it is used only to give a rejected   *)
(* event a more specific clause name when what the code returned is exactly what a disc of radius r/2 would give.      *)
DiscBandH(s, p, h) == LET nd == <<Len2(s.c, p), 1>>  r2 == s.r * s.r IN
                      IF LeqFracH(nd, 9801, 10000, r2, h) THEN "T"                                 \* d <= 0.99 r
                      ELSE IF LeqFracH(nd, 10201, 10000, r2, h) THEN "EITHER" ELSE "F"             \* band (B1); d > 1.01 r
PrimExported3H(s, p, noisy, h) == IF s.k = "disc" THEN DiscBandH(s, p, h) ELSE PrimContains3(s, p, noisy)
Exported3H(s, p, noisy, h) == IF s.k = "group" THEN Any3({PrimExported3H(s.ms[i], p, noisy, h) : i \in DOMAIN s.ms})
                              ELSE PrimExported3H(s, p, noisy, h)
Exported3(s, p, noisy) == Exported3H(s, p, noisy, 1)
InAnyBand(s, p, noisy) == Exported3(s, p, noisy) = "EITHER" \/ ContainsPoint3(s, p, noisy) = "EITHER"
HasDisc(s) == s.k = "disc" \/ (s.k = "group" /\ \E i \in DOMAIN s.ms : s.ms[i].k = "disc")

(* ------------------------------ part 1: lanelet polygon against point / shape ------------------------ *)
(* noisy: the lanelet vertices went through a rotation by a float angle (band (B2))                     *)
PosRel(P, p, noisy) == IF InPolyStrict(P, p) THEN "T" ELSE IF ~InPoly(P, p) THEN "F"
                       ELSE IF noisy THEN "EITHER" ELSE "T"
RingRel(P, Q, w, exact) ==                      \* P, Q rings in the same scale; w a point of Q's interior (or <<>>)
    IF ~PolyMeet(P, Q) THEN "F" ELSE IF exact THEN "T"
    ELSE IF PolyStrong(P, Q) \/ (w # <<>> /\ InPolyStrict(P, w)) THEN "T" ELSE "EITHER"
DiscRelH(P, s, h) ==                            \* the EXPORTED disc against the closed polygon
    IF InPoly(P, s.c) THEN "T"
    ELSE LET r2 == s.r * s.r
             D  == {SegDist2(P[i], Nxt(P, i), s.c) : i \in 1..Len(P)}
         IN IF \E nd \in D : LeqFracH(nd, 9801, 10000, r2, h) THEN "T"
            ELSE IF \E nd \in D : LeqFracH(nd, 10201, 10000, r2, h) THEN "EITHER" ELSE "F"
DiscRel(P, s) == DiscRelH(P, s, 1)
PrimRelH(P, s, noisy, h) ==
    CASE s.k = "rect" -> RingRel(Scale(P, s.rot[3]), RectRing(s), ScaleP(s.c, s.rot[3]), ~noisy /\ ExactRot(s.rot))
      [] s.k = "poly" -> RingRel(P, s.v, <<>>, ~noisy)
      [] s.k = "disc" -> DiscRelH(P, s, h)
ShapeRelH(P, s, noisy, h) == IF s.k = "group" THEN Any3({PrimRelH(P, s.ms[i], noisy, h) : i \in DOMAIN s.ms})
                             ELSE PrimRelH(P, s, noisy, h)
ShapeRel(P, s, noisy) == ShapeRelH(P, s, noisy, 1)

(* truth operators on a network (sequence of [id, v]) *)
Ids(net)              == {net[k].id : k \in DOMAIN net}
ByPosition(net, p)    == {net[k].id : k \in {j \in DOMAIN net : InPoly(net[j].v, p)}}
ByShape(net, s)       == {net[k].id : k \in {j \in DOMAIN net : ShapeRel(net[j].v, s, FALSE) = "T"}}
MustSet(net, Rel(_))  == {net[k].id : k \in {j \in DOMAIN net : Rel(net[j].v) = "T"}}
MaySet(net, Rel(_))   == {net[k].id : k \in {j \in DOMAIN net : Rel(net[j].v) # "F"}}
(* a returned id list is exactly the truth (up to bands), without duplicates *)
SetOk(res, net, Rel(_)) == /\ MustSet(net, Rel) \subseteq Range(res)
                           /\ Range(res) \subseteq MaySet(net, Rel)
                           /\ Cardinality(Range(res)) = Len(res)
NetFn(net) == [i \in Ids(net) |-> net[CHOOSE k \in DOMAIN net : net[k].id = i].v]
(* DEFERRED index rebuilds: add_lanelet(l, rtree=False) / remove_lanelet(id, rtree=False) change the network at once, the   *)
(* index MAY stay as it was until the next operation that rebuilds it.  Band (B3): between a deferred step and the next   *)
(* rebuilding step a lookup is "EITHER" for the lanelets touched by deferred steps - and ONLY for those.                 *)
ExtraId == 15                                          \* the lanelet added by the add_extra routes
IsDeferred(rt) == rt.r = "remove_nortree" \/ (rt.r = "add_extra" /\ rt.a[1] = 0)
RECURSIVE PendingUpTo(_, _)
PendingUpTo(routes, n) == IF n = 0 THEN {} ELSE
                          LET rt == routes[n] IN
                          IF rt.r = "draw" THEN PendingUpTo(routes, n - 1)           \* drawing is read-only: nothing is rebuilt
                          ELSE IF rt.r = "remove_nortree" THEN PendingUpTo(routes, n - 1) \cup {rt.a[1]}
                          ELSE IF IsDeferred(rt) THEN PendingUpTo(routes, n - 1) \cup {ExtraId}
                          ELSE {}                      \* every other route step rebuilds (or freshly builds) the index
Pending(routes) == PendingUpTo(routes, Len(routes))
SetOkP(res, net, Rel(_), pend) == /\ (MustSet(net, Rel) \ pend) \subseteq Range(res)
                                  /\ Range(res) \subseteq (MaySet(net, Rel) \cup pend)
                                  /\ Cardinality(Range(res)) = Len(res)
UniqueIds(net) == Cardinality(Ids(net)) = Len(net)

(* obstacles: [id |-> obstacle id, occ |-> <<shape>> (occupied region at the queried time step) or <<>> (absent)] *)
Located(P, o, noisy, h) == IF o.occ = <<>> THEN "F" ELSE ShapeRelH(P, o.occ[1], noisy, h)
ObsMust(P, obs, noisy, h) == {obs[k].id : k \in {j \in DOMAIN obs : Located(P, obs[j], noisy, h) = "T"}}
ObsMay(P, obs, noisy, h)  == {obs[k].id : k \in {j \in DOMAIN obs : Located(P, obs[j], noisy, h) # "F"}}
NoDup(res) == Cardinality(Range(res)) = Len(res)
ObsOk(res, P, obs, noisy, h) == ObsMust(P, obs, noisy, h) \subseteq Range(res) /\ Range(res) \subseteq ObsMay(P, obs, noisy, h) /\ NoDup(res)
RingOfId(net, i) == net[CHOOSE k \in DOMAIN net : net[k].id = i].v
(* map_obstacles_to_lanelets: entries [lid, obs] exactly for the lanelets that hold at least one obstacle *)
MapOk(res, net, obs, noisy, h) ==
    /\ \A k \in DOMAIN res : /\ res[k].lid \in Ids(net) /\ res[k].obs # <<>>
                              /\ ObsOk(res[k].obs, RingOfId(net, res[k].lid), obs, noisy, h)
    /\ \A j \in DOMAIN net : ObsMust(net[j].v, obs, noisy, h) # {} => \E k \in DOMAIN res : res[k].lid = net[j].id
    /\ Cardinality({res[k].lid : k \in DOMAIN res}) = Len(res)
(* filter_obstacles_in_network: the obstacles located on at least one lanelet *)
FilterOk(res, net, obs, noisy, h) ==
    /\ UNION {ObsMust(net[j].v, obs, noisy, h) : j \in DOMAIN net} \subseteq Range(res)
    /\ Range(res) \subseteq UNION {ObsMay(net[j].v, obs, noisy, h) : j \in DOMAIN net}
    /\ NoDup(res)

(* ------------------------------ lattice motions (translate, then rotate about the origin) ------------ *)
RotQ(q, p)   == CASE q % 4 = 0 -> p [] q % 4 = 1 -> <<-p[2], p[1]>> [] q % 4 = 2 -> <<-p[1], -p[2]>> [] q % 4 = 3 -> <<p[2], -p[1]>>
Move(m, p)   == RotQ(m[3], <<p[1] + m[1], p[2] + m[2]>>)                 \* m = <<TX, TY, q>>, TX/TY doubled
MoveRing(m, P) == [i \in DOMAIN P |-> Move(m, P[i])]
MoveNet(m, net) == [k \in DOMAIN net |-> [id |-> net[k].id, v |-> MoveRing(m, net[k].v)]]
MoveRot(q, r)  == LET v == RotQ(q, <<r[1], r[2]>>) IN <<v[1], v[2], r[3]>>
RECURSIVE MoveShape(_, _)
MoveShape(m, s) == CASE s.k = "rect" -> [s EXCEPT !.c = Move(m, @), !.rot = MoveRot(m[3], @)]
                     [] s.k = "disc" -> [s EXCEPT !.c = Move(m, @)]
                     [] s.k = "poly" -> [s EXCEPT !.v = MoveRing(m, @)]
                     [] s.k = "group" -> [s EXCEPT !.ms = [i \in DOMAIN s.ms |-> MoveShape(m, s.ms[i])]]

(* finer lattices: an event may give its points and polygons in units of 1/(2 k); the shapes (given in doubled coordinates) follow *)
RECURSIVE ScaleShape(_, _)
ScaleShape(s, k) == IF k = 1 THEN s ELSE
                    CASE s.k = "rect" -> [s EXCEPT !.c = ScaleP(@, k), !.l = k * @, !.w = k * @]
                      [] s.k = "disc" -> [s EXCEPT !.c = ScaleP(@, k), !.r = k * @]
                      [] s.k = "poly" -> [s EXCEPT !.v = Scale(@, k)]
                      [] s.k = "group" -> [s EXCEPT !.ms = [i \in DOMAIN s.ms |-> ScaleShape(s.ms[i], k)]]
ScaleNet(net, k) == [j \in DOMAIN net |-> [id |-> net[j].id, v |-> Scale(net[j].v, k)]]

(* ------------------------------ lanelet families on the 6 x 4 lattice (REAL integer coordinates) ------ *)
D2(P)  == [i \in DOMAIN P |-> <<2 * P[i][1], 2 * P[i][2]>>]
Rev(P) == [i \in 1..Len(P) |-> P[Len(P) + 1 - i]]
Lt(id, right, left) == [id |-> id, r |-> right, l |-> left]                \* lanelet token: the two boundary polylines
Box(id, x0, y0, x1, y1) == Lt(id, <<<<x0, y0>>, <<x1, y0>>>>, <<<<x0, y1>>, <<x1, y1>>>>)
RingOf(t) == D2(t.r \o Rev(t.l))                                           \* right boundary, then reversed left boundary
FamNames == <<"single", "disjoint", "adjacent", "stacked", "overlap", "nested", "lshape", "para", "curved", "cross4",
              "corner", "mixed4">>
Family(f) ==
    CASE f = "single"   -> <<Box(11, 1, 1, 2, 2)>>
      [] f = "disjoint" -> <<Box(11, 0, 0, 1, 1), Box(12, 3, 2, 5, 3)>>
      [] f = "adjacent" -> <<Box(11, 0, 1, 2, 2), Box(12, 2, 1, 4, 2), Box(13, 4, 1, 6, 2)>>            \* shared edges x = 2, x = 4
      [] f = "stacked"  -> <<Box(11, 0, 0, 2, 1), Box(12, 0, 1, 2, 2)>>                                 \* shared edge y = 1
      [] f = "overlap"  -> <<Box(11, 0, 0, 2, 1), Box(12, 1, 0, 3, 1), Box(13, 1, 0, 2, 3)>>            \* pairwise overlapping
      [] f = "nested"   -> <<Box(11, 0, 0, 4, 3), Box(12, 1, 1, 2, 2)>>
      [] f = "lshape"   -> <<Lt(11, <<<<0, 0>>, <<2, 0>>, <<2, 2>>>>, <<<<0, 1>>, <<1, 1>>, <<1, 2>>>>),   \* L around the notch
                             Box(12, 0, 1, 1, 2), Box(13, 2, 0, 3, 1)>>                                   \* in the notch; next to it
      [] f = "para"     -> <<Lt(11, <<<<0, 0>>, <<2, 0>>>>, <<<<1, 1>>, <<3, 1>>>>),
                             Lt(12, <<<<2, 0>>, <<4, 0>>>>, <<<<3, 1>>, <<5, 1>>>>)>>                     \* shared slanted edge
      [] f = "curved"   -> <<Lt(11, <<<<0, 0>>, <<2, 0>>, <<4, 1>>, <<6, 1>>>>, <<<<0, 1>>, <<2, 1>>, <<4, 2>>, <<6, 2>>>>),
                             Lt(12, <<<<0, 3>>, <<1, 3>>, <<2, 3>>, <<3, 3>>>>, <<<<0, 4>>, <<1, 4>>, <<2, 4>>, <<3, 4>>>>)>>
      [] f = "cross4"   -> <<Box(11, 1, 1, 2, 2), Box(12, 2, 1, 3, 2), Box(13, 1, 2, 2, 3), Box(14, 2, 2, 3, 3)>>
      [] f = "corner"   -> <<Box(11, 0, 0, 1, 1), Box(12, 1, 1, 2, 2)>>                                 \* touch in one point
      [] f = "mixed4"   -> <<Box(11, 0, 0, 4, 2), Box(12, 2, 0, 6, 2), Box(13, 3, 0, 4, 1), Box(14, 0, 2, 4, 3)>>
Extra == Box(ExtraId, 4, 3, 6, 4)                      \* the lanelet of the add_extra routes: [4,6] x [3,4]
FamNet(f) == LET F == Family(f) IN [k \in DOMAIN F |-> [id |-> F[k].id, v |-> RingOf(F[k])]]

(* ------------------------------ laws of the core (checked by TLC in MC_SpatialIndex) ------------------ *)
LawStrictClosed(P, p)   == InPolyStrict(P, p) => InPoly(P, p)
LawRectRing(s, p)       == /\ InRect(s, p) <=> InPoly(RectRing(s), ScaleP(p, s.rot[3]))            \* defining set = vertex ring
                           /\ InRectStrict(s, p) <=> InPolyStrict(RectRing(s), ScaleP(p, s.rot[3]))
LawMeetSym(P, Q)        == PolyMeet(P, Q) = PolyMeet(Q, P) /\ PolyStrong(P, Q) = PolyStrong(Q, P)
LawStrongMeet(P, Q)     == PolyStrong(P, Q) => PolyMeet(P, Q)
LawPointShape(P, s, p)  == (ContainsPoint3(s, p, FALSE) = "T" /\ InPoly(P, p)) => ShapeRel(P, s, FALSE) # "F" \* a common point: they meet
LawMotion(m, net, p)    == ByPosition(MoveNet(m, net), Move(m, p)) = ByPosition(net, p)           \* predicates are motion invariant
LawMotionShape(m, net, s) == ByShape(MoveNet(m, net), MoveShape(m, s)) \subseteq MaySet(net, LAMBDA P : ShapeRel(P, s, FALSE))
LawBands(P, s, p)       == /\ (s.k # "disc" /\ (s.k = "rect" => ExactRot(s.rot))) => ~InAnyBand(s, p, FALSE) /\ ShapeRel(P, s, FALSE) # "EITHER"
                           /\ ContainsPoint3(s, p, FALSE) = "EITHER" => s.k = "rect" /\ ~ExactRot(s.rot)
LawDiscExport(s, p)     == Rank(Exported3(s, p, FALSE)) <= Rank(ContainsPoint3(s, p, FALSE)) \/ Exported3(s, p, FALSE) = "EITHER"  \* export never exceeds the disc
=================================================================================
