----------------------------- MODULE StateAlgebra -----------------------------
(* X06 (extended coverage) - the attribute algebra of the State classes of                    *)
(* commonroad/scenario/state.py and the predicates of commonroad/common/validity.py, written   *)
(* from their docstrings, type annotations, assert messages and the library's own unit tests.  *)
(* Equality / hash of states is C12 (EqContract.tla), translate_rotate is C05 (Transform.tla). *)
(*   1. values and the class table (which class declares which attributes, derived properties) *)
(*   2. the state object as a state machine: new / setattr / add_attribute / set_value /       *)
(*      fill_with_defaults / convert_state_to_state + the queries attributes, used_attributes, *)
(*      has_value, is_uncertain_*, derived properties, str(), __array__                        *)
(*   3. derived properties on an exact grid (Pythagorean directions)                           *)
(*   4. which state lists a Trajectory accepts (TraceState)                                    *)
(*   5. SignalState (slots) and MetaInformationState (four dictionaries)                       *)
(*   6. validity.py over a token universe of inputs (three-valued: "T" / "F" / "E" = either,   *)
(*      "A" = the documented AssertionError on an invalid bound / length argument)             *)
(* Functional core of the CONTRACT: no variables.  Clause(..) names the violated clause of an  *)
(* event ("" = accepted).  Where the documentation is silent both behaviours are accepted; the *)
(* bands are the branches commented `silent`.                                                  *)
EXTENDS Integers, Sequences, FiniteSets, TLC

Range(s)  == {s[i] : i \in DOMAIN s}
NoDup(s)  == \A i, j \in DOMAIN s : i # j => s[i] # s[j]
Abs(x)    == IF x < 0 THEN -x ELSE x
RECURSIVE Gcd(_, _)
Gcd(a, b) == IF b = 0 THEN Abs(a) ELSE Gcd(b, a % Abs(b))
ISqrt(m)  == CHOOSE r \in 0..(m + 1) : r * r <= m /\ (r + 1) * (r + 1) > m

(* ======================================================================================== *)
(* 1. Values and classes                                                                    *)
(* ======================================================================================== *)
(* a value is [k |-> kind, a |-> integers]:                                                 *)
(*   "N" None <<>>            "f" float <<n>> (= n.0)      "i" int <<n>>                     *)
(*   "P" exact position <<x, y>> (numpy array)   "R" Rectangle <<length, width, cx, cy>>     *)
(*   "I" Interval <<lo, hi>>  "A" AngleInterval <<lo, hi>>                                   *)
(*   "H" the heading of the direction <<dx, dy>> (reduced), "?" any other value <<>>         *)
V(k, a) == [k |-> k, a |-> a]
NoneV   == V("N", <<>>)
Fl(n)   == V("f", <<n>>)
In(n)   == V("i", <<n>>)
Pt(x, y) == V("P", <<x, y>>)
IsNone(v)   == v.k = "N"
IsScalar(v) == v.k \in {"f", "i"}

DataClasses == {"InitialState", "PMState", "ExtendedPMState", "KSState", "KSTState", "STState", "STDState", "MBState",
                "LongitudinalState", "LateralState", "InputState", "PMInputState", "LKSInputState"}
StateClasses == DataClasses \cup {"CustomState"}             \* the members of the TraceState union
KSF == <<"time_step", "position", "steering_angle", "velocity", "orientation">>
STF == KSF \o <<"slip_angle", "yaw_rate">>
(* the attributes a class declares, in declaration order (base class first) *)
Fields(c) ==
  CASE c = "InitialState"      -> <<"time_step", "position", "orientation", "velocity", "acceleration", "yaw_rate", "slip_angle">>
    [] c = "PMState"           -> <<"time_step", "position", "velocity", "velocity_y">>
    [] c = "ExtendedPMState"   -> <<"time_step", "position", "velocity", "orientation", "acceleration">>
    [] c = "KSState"           -> KSF
    [] c = "KSTState"          -> KSF \o <<"hitch_angle">>
    [] c = "STState"           -> STF
    [] c = "STDState"          -> STF \o <<"front_wheel_angular_speed", "rear_wheel_angular_speed">>
    [] c = "MBState"           -> <<"time_step", "position", "steering_angle", "velocity", "orientation", "yaw_rate",
                                    "roll_angle", "roll_rate", "pitch_angle", "pitch_rate", "velocity_y", "position_z",
                                    "velocity_z", "roll_angle_front", "roll_rate_front", "velocity_y_front",
                                    "position_z_front", "velocity_z_front", "roll_angle_rear", "roll_rate_rear",
                                    "velocity_y_rear", "position_z_rear", "velocity_z_rear",
                                    "left_front_wheel_angular_speed", "right_front_wheel_angular_speed",
                                    "left_rear_wheel_angular_speed", "right_rear_wheel_angular_speed",
                                    "delta_y_f", "delta_y_r">>
    [] c = "LongitudinalState" -> <<"time_step", "longitudinal_position", "velocity", "acceleration", "jerk">>
    [] c = "LateralState"      -> <<"time_step", "lateral_position", "orientation", "curvature", "curvature_rate">>
    [] c = "InputState"        -> <<"time_step", "steering_angle_speed", "acceleration">>
    [] c = "PMInputState"      -> <<"time_step", "acceleration", "acceleration_y">>
    [] c = "LKSInputState"     -> <<"time_step", "jerk_dot", "kappa_dot_dot">>
    [] c = "CustomState"       -> <<"time_step">>             \* everything else is added at run time
FieldSet(c) == Range(Fields(c))
(* read-only properties computed from other attributes ("Does not consider intervals") *)
Derived(c)  == CASE c = "PMState" -> {"orientation"} [] c = "ExtendedPMState" -> {"velocity_y"} [] OTHER -> {}
DerivedFrom(c, n) == IF c = "PMState" THEN {"velocity", "velocity_y"} ELSE {"velocity", "orientation"}
(* names every State object answers to without being attributes of the state space (methods, properties) *)
MemberNames == {"attributes", "used_attributes", "has_value", "draw", "fill_with_defaults", "translate_rotate"}

(* ---- the abstract object: class + ordered attribute list of [n |-> name, v |-> value] ---- *)
Absent      == [cls |-> "", at |-> <<>>]
Names(at)   == {at[i].n : i \in DOMAIN at}
HasA(at, n) == n \in Names(at)
ValA(at, n) == at[CHOOSE i \in DOMAIN at : at[i].n = n].v
Pairs(at)   == Range(at)
SameAttrs(a, b) == Pairs(a) = Pairs(b) /\ Len(a) = Len(b)       \* silent: the order of the attribute list
Upd(at, n, v) == IF HasA(at, n) THEN [i \in DOMAIN at |-> IF at[i].n = n THEN [n |-> n, v |-> v] ELSE at[i]]
                 ELSE Append(at, [n |-> n, v |-> v])
KwVal(kw, n)  == IF HasA(kw, n) THEN ValA(kw, n) ELSE NoneV
Fresh(c, kw)  == LET f == Fields(c) IN [i \in DOMAIN f |-> [n |-> f[i], v |-> KwVal(kw, f[i])]]
Used(at)      == {at[i].n : i \in {j \in DOMAIN at : ~IsNone(at[j].v)}}

(* fill_with_defaults: "Fills all state fields with default values" - only the unset ones (None) *)
(* time_step is declared Union[int, Interval]: its default is the integer 0                      *)
Default(n)  == IF n = "position" THEN Pt(0, 0) ELSE IF n = "time_step" THEN In(0) ELSE Fl(0)
Filled(at)  == [i \in DOMAIN at |-> IF IsNone(at[i].v) THEN [n |-> at[i].n, v |-> Default(at[i].n)] ELSE at[i]]

(* derived properties are defined iff both source attributes are set *)
DerivedDefined(c, at, n) == \A m \in DerivedFrom(c, n) : HasA(at, m) /\ ~IsNone(ValA(at, m))
DerivedExact(c, at, n)   == \A m \in DerivedFrom(c, n) : HasA(at, m) /\ IsScalar(ValA(at, m))

(* has_value(attr): "Checks whether an attribute is given and is initialized with a value" *)
HasValue(c, at, n) ==
  IF HasA(at, n) THEN (IF IsNone(ValA(at, n)) THEN "F" ELSE "T")
  ELSE IF n \in Derived(c) THEN (IF DerivedDefined(c, at, n) THEN "E" ELSE "F")   \* silent: a derived property with a value
  ELSE IF n \in MemberNames THEN "E"                                             \* silent: names of methods / properties
  ELSE "F"
(* is_uncertain_position: the position is a Shape; is_uncertain_orientation: the orientation is an AngleInterval *)
UncPos(at) == IF HasA(at, "position") /\ ValA(at, "position").k = "R" THEN "T" ELSE "F"
UncOri(at) == IF ~HasA(at, "orientation") THEN "F"
              ELSE IF ValA(at, "orientation").k = "A" THEN "T"
              ELSE IF ValA(at, "orientation").k = "I" THEN "E"      \* silent: a plain Interval as orientation
              ELSE "F"
Tri(b, t) == t = "E" \/ (b = 1 /\ t = "T") \/ (b = 0 /\ t = "F")

(* convert_state_to_state(target): attributes the target class declares are carried over by name *)
ConvOk(c, at, tc, pre, post) ==
  \A i \in DOMAIN post :
     LET n == post[i].n  v == post[i].v  p == KwVal(pre, n) IN
     IF HasA(at, n) THEN v = ValA(at, n) \/ (IsNone(ValA(at, n)) /\ v = p)     \* silent: None over a preset target value
     ELSE v = p \/ (n \in Derived(c) /\ DerivedDefined(c, at, n) /\ v.k \in {"f", "H", "?"})  \* silent: deriving heading / v_y
Conv(at, tc) == LET f == Fields(tc) IN [i \in DOMAIN f |-> [n |-> f[i], v |-> KwVal(at, f[i])]]   \* onto a fresh target

(* __array__: "iterating over all fields of the dataclass. The order of the fields as defined in the dataclass is *)
(* preserved. Time step is not included"; the position contributes x and y                                        *)
RECURSIVE Flat(_, _)
Flat(at, i) == IF i > Len(at) THEN <<>>
               ELSE (IF at[i].n = "time_step" THEN <<>> ELSE at[i].v.a) \o Flat(at, i + 1)
ArrayExact(c, at) == c \in DataClasses /\ Names(at) = FieldSet(c)
                     /\ \A i \in DOMAIN at : at[i].n = "time_step" \/ at[i].v.k \in {"f", "i", "P"}

(* ======================================================================================== *)
(* 2. The state object: events carry post = the attribute list after the call              *)
(* ======================================================================================== *)
SMutators == {"new", "set", "add_attr", "set_value", "fill", "conv"}
SQueries  == {"attrs", "has", "unc", "derived", "str", "array"}
SOps      == SMutators \cup SQueries
Ok(e)     == e.res = "ok"

SClause(ob, e) ==
  LET at == ob.at  c == ob.cls  P == e.post IN
  IF ~NoDup([i \in DOMAIN P |-> P[i].n]) THEN "X06.Attributes/duplicate-name"
  ELSE CASE e.op = "new" ->              \* cls(**kw)
         IF e.cls \in DataClasses
         THEN IF Names(e.kw) \subseteq FieldSet(e.cls)
              THEN IF ~Ok(e) THEN "X06.New/declared-attributes-rejected"
                   ELSE IF ~SameAttrs(P, Fresh(e.cls, e.kw)) THEN "X06.New/contents" ELSE ""
              ELSE IF Ok(e) THEN "X06.New/undeclared-attribute-accepted" ELSE ""
         ELSE \* CustomState(**kw): "Variable number of attributes each consisting of name and value"
              IF e.kw = <<>> \/ ~HasA(e.kw, "time_step")
              THEN IF Ok(e) /\ ~(Pairs(e.kw) \subseteq Pairs(P) /\ Names(P) \subseteq Names(e.kw) \cup {"time_step"})
                   THEN "X06.New/custom-contents" ELSE ""                          \* silent: no time_step given
              ELSE IF ~Ok(e) THEN "X06.New/custom-rejected"
              ELSE IF ~SameAttrs(P, e.kw) THEN "X06.New/custom-contents" ELSE ""
    [] e.op = "set" ->                   \* setattr(state, n, v)
         IF HasA(at, e.n) \/ c = "CustomState"
         THEN IF ~Ok(e) THEN "X06.Set/attribute-rejected"
              ELSE IF ~SameAttrs(P, Upd(at, e.n, e.v)) THEN "X06.Set/effect" ELSE ""
         ELSE \* silent: a derived property or an undeclared name on a dataclass state - rejected atomically or stored
              IF Ok(e) THEN (IF ~SameAttrs(P, Upd(at, e.n, e.v)) THEN "X06.Set/effect" ELSE "")
              ELSE IF ~SameAttrs(P, at) THEN "X06.Set/reject-not-atomic" ELSE ""
    [] e.op = "add_attr" ->              \* CustomState.add_attribute(n): "Adds a new attribute to custom state"
         IF ~Ok(e) THEN "X06.AddAttribute/raises"
         ELSE IF ~HasA(at, e.n) THEN (IF ~SameAttrs(P, Append(at, [n |-> e.n, v |-> NoneV])) THEN "X06.AddAttribute/effect" ELSE "")
         ELSE IF SameAttrs(P, at) \/ SameAttrs(P, Upd(at, e.n, NoneV)) THEN "" ELSE "X06.AddAttribute/existing"   \* silent: kept or reset
    [] e.op = "set_value" ->             \* CustomState.set_value(n, v): "<n> is not an attribute of this custom state!"
         IF HasA(at, e.n)
         THEN IF ~Ok(e) THEN "X06.SetValue/attribute-rejected"
              ELSE IF ~SameAttrs(P, Upd(at, e.n, e.v)) THEN "X06.SetValue/effect" ELSE ""
         ELSE IF Ok(e) THEN "X06.SetValue/unknown-attribute-accepted"
              ELSE IF ~SameAttrs(P, at) THEN "X06.SetValue/reject-not-atomic" ELSE ""
    [] e.op = "fill" ->                  \* fill_with_defaults()
         IF ~Ok(e) THEN "X06.FillDefaults/raises"
         ELSE IF Names(P) # Names(at) THEN "X06.FillDefaults/attribute-set"
         ELSE IF \E i \in DOMAIN at : ~IsNone(at[i].v) /\ ValA(P, at[i].n) # at[i].v THEN "X06.FillDefaults/overwrites-set-value"
         ELSE IF \E i \in DOMAIN P : IsNone(P[i].v) THEN "X06.FillDefaults/left-unset"
         ELSE IF HasA(at, "time_step") /\ IsNone(ValA(at, "time_step")) /\ ValA(P, "time_step") # In(0)
              THEN "X06.FillDefaults/time-step-not-integer-0"
         ELSE IF ~SameAttrs(P, Filled(at)) THEN "X06.FillDefaults/default-value" ELSE ""
    [] e.op = "conv" ->                  \* convert_state_to_state(tcls(**pre)); the walk continues on the result
         IF ~Ok(e) THEN "X06.Convert/raises"
         ELSE IF ~SameAttrs(e.src, at) THEN "X06.Convert/mutates-source"
         ELSE IF Names(P) # FieldSet(e.tcls) THEN "X06.Convert/attribute-set"
         ELSE IF \E i \in DOMAIN P : HasA(at, P[i].n) /\ ~IsNone(ValA(at, P[i].n)) /\ P[i].v # ValA(at, P[i].n)
              THEN "X06.Convert/common-attribute-not-carried"
         ELSE IF ~ConvOk(c, at, e.tcls, e.pre, P) THEN "X06.Convert/invented-value" ELSE ""
    [] e.op \in SQueries ->
         IF ~SameAttrs(P, at) THEN "X06.Query/mutates"
         ELSE IF e.op = "attrs" THEN        \* attributes / used_attributes
                (IF ~Ok(e) THEN "X06.Attributes/raises"
                 ELSE IF Range(e.attrs) # Names(at) \/ ~NoDup(e.attrs) THEN "X06.Attributes/names"
                 ELSE IF Range(e.used) # Used(at) \/ ~NoDup(e.used) THEN "X06.UsedAttributes/names" ELSE "")
         ELSE IF e.op = "has" THEN
                (IF ~Ok(e) THEN "X06.HasValue/raises"
                 ELSE IF ~Tri(e.val, HasValue(c, at, e.n)) THEN
                      (IF HasA(at, e.n) THEN "X06.HasValue/attribute" ELSE "X06.HasValue/not-an-attribute")
                 ELSE "")
         ELSE IF e.op = "unc" THEN
                (IF ~Ok(e) THEN "X06.Uncertain/raises"
                 ELSE IF ~Tri(e.up, UncPos(at)) THEN "X06.Uncertain/position"
                 ELSE IF ~Tri(e.uo, UncOri(at)) THEN "X06.Uncertain/orientation" ELSE "")
         ELSE IF e.op = "derived" THEN      \* PMState.orientation / ExtendedPMState.velocity_y: None iff a source is unset
                (IF ~DerivedExact(c, at, e.n) /\ DerivedDefined(c, at, e.n) THEN ""        \* silent: "Does not consider intervals"
                 ELSE IF ~Ok(e) THEN "X06.Derived/raises"
                 ELSE IF e.def # (IF DerivedDefined(c, at, e.n) THEN 1 ELSE 0) THEN "X06.Derived/definedness" ELSE "")
         ELSE IF e.op = "str" THEN          \* str(): names the class and lists every declared attribute
                (IF ~Ok(e) THEN "X06.Str/raises"
                 ELSE IF e.hascls # 1 THEN "X06.Str/class-name"
                 ELSE IF ~(FieldSet(c) \subseteq Range(e.listed)) THEN "X06.Str/declared-attribute-missing"
                 ELSE IF ~(Range(e.listed) \subseteq Names(at) \cup FieldSet(c)) THEN "X06.Str/foreign-name" ELSE "")
         ELSE                               \* np.array(state)
                (IF ~ArrayExact(c, at) THEN ""                                        \* silent: unset / uncertain values, custom states
                 ELSE IF ~Ok(e) THEN "X06.Array/raises"
                 ELSE IF e.vals # Flat(Fresh(c, at), 1) THEN "X06.Array/contents" ELSE "")
    [] OTHER -> "machinery/unknown-state-op"
SPost(ob, e) == IF e.op = "new" THEN [cls |-> IF Ok(e) THEN e.cls ELSE "", at |-> e.post]
                ELSE IF e.op = "conv" /\ Ok(e) THEN [cls |-> e.tcls, at |-> e.post]
                ELSE [cls |-> ob.cls, at |-> e.post]

(* ======================================================================================== *)
(* 3. Derived properties on the exact grid: PMState.orientation = atan2(v_y, v_x),          *)
(*    ExtendedPMState.velocity_y = velocity * sin(orientation).  Directions (dx, dy) with   *)
(*    integral norm n (axis directions, 3-4-5, 5-12-13, ...); logged K*cos, K*sin of the    *)
(*    returned angle as integers (exact = 1 iff they are integral within 1e-9).             *)
(* ======================================================================================== *)
Norm2(x, y)   == x * x + y * y
Pyth(x, y)    == LET r == ISqrt(Norm2(x, y)) IN r * r = Norm2(x, y) /\ r > 0
OnGrid(K, x, y) == Pyth(x, y) /\ (K * x) % ISqrt(Norm2(x, y)) = 0 /\ (K * y) % ISqrt(Norm2(x, y)) = 0
CosK(K, x, y) == (K * x) \div ISqrt(Norm2(x, y))
SinK(K, x, y) == (K * y) \div ISqrt(Norm2(x, y))
DClause(e) ==
  CASE e.op = "d_pm" ->                   \* PMState(velocity = vx, velocity_y = vy).orientation
         IF e.vx = 0 /\ e.vy = 0 THEN (IF ~Ok(e) THEN "X06.DerivedOrientation/raises" ELSE "")     \* silent: heading of the zero vector
         ELSE IF ~Ok(e) THEN "X06.DerivedOrientation/raises"
         ELSE IF ~OnGrid(e.K, e.vx, e.vy) THEN "machinery/direction-off-grid"
         ELSE IF e.exact # 1 \/ e.ck # CosK(e.K, e.vx, e.vy) \/ e.sk # SinK(e.K, e.vx, e.vy) THEN "X06.DerivedOrientation/value"
         ELSE IF e.valid # 1 THEN "X06.DerivedOrientation/not-a-valid-orientation" ELSE ""
    [] e.op = "d_epm" ->                  \* ExtendedPMState(velocity = v, orientation = heading of (dx, dy)).velocity_y
         IF ~Ok(e) THEN "X06.DerivedVelocityY/raises"
         ELSE IF ~OnGrid(e.K, e.dx, e.dy) THEN "machinery/direction-off-grid"
         ELSE IF e.exact # 1 \/ e.vyK # e.v * SinK(e.K, e.dx, e.dy) THEN "X06.DerivedVelocityY/value" ELSE ""
    [] OTHER -> "machinery/unknown-derived-op"

(* ======================================================================================== *)
(* 4. Trajectory(initial_time_step, state_list) / append_state: which TraceStates are       *)
(*    accepted.  A state descriptor is [cls, ts (value), used (attribute names besides      *)
(*    time_step that are set)]; cls "SignalState" / "dict" stand for objects that are no State *)
(*    assert messages: "must contain at least one state", "element of state_list is of wrong   *)
(*    type", "time_step of each state must be an integer", "all states must have the same      *)
(*    attributes", "state_list[0].time_step != self.initial_time_step"                         *)
(* ======================================================================================== *)
IsStateDesc(d) == d.cls \in StateClasses
NatTs(d)       == d.ts.k = "i" /\ d.ts.a[1] >= 0
UsedOf(d)      == Range(d.used) \cup (IF IsNone(d.ts) THEN {} ELSE {"time_step"})
TrajAccepts(t0, ds) ==
  /\ ds # <<>> /\ \A i \in DOMAIN ds : IsStateDesc(ds[i]) /\ NatTs(ds[i]) /\ UsedOf(ds[i]) = UsedOf(ds[1])
  /\ ds[1].ts.a[1] = t0
TClause(e) ==
  CASE e.op = "tj_new" ->
         IF TrajAccepts(e.t0, e.ds) THEN (IF ~Ok(e) THEN "X06.TrajectoryAccepts/valid-state-list-rejected" ELSE "")
         ELSE IF Ok(e) THEN "X06.TrajectoryAccepts/invalid-state-list-accepted" ELSE ""
    [] e.op = "tj_append" ->             \* onto an accepted trajectory whose states look like e.ds[Len(e.ds)]
         LET last == e.ds[Len(e.ds)]  d == e.d IN
         IF ~IsStateDesc(d) \/ UsedOf(d) # UsedOf(e.ds[1]) THEN (IF Ok(e) THEN "X06.TrajectoryAppend/mismatch-accepted" ELSE "")
         ELSE IF d.ts.k # "i" THEN ""                                            \* silent: type of the time step of an appended state
         ELSE IF d.ts.a[1] <= last.ts.a[1] THEN (IF Ok(e) THEN "X06.TrajectoryAppend/not-larger-accepted" ELSE "")
         ELSE IF d.ts.a[1] = last.ts.a[1] + 1 THEN (IF ~Ok(e) THEN "X06.TrajectoryAppend/rejected" ELSE "")
         ELSE ""                                                                 \* a gap: see X01
    [] OTHER -> "machinery/unknown-trajectory-op"

(* ======================================================================================== *)
(* 5. SignalState ("The possible signal state elements are defined as slots") and           *)
(*    MetaInformationState (four dictionaries; the setters assert isinstance(.., Dict))     *)
(* ======================================================================================== *)
SignalSlots == {"horn", "indicator_left", "indicator_right", "braking_lights", "hazard_warning_lights",
                "flashing_blue_lights", "time_step"}
(* abstract state: list of [n, v] of the assigned slots; events log post = assigned slots after the call *)
GClause(at, e) ==
  LET P == e.post IN
  CASE e.op = "g_new" ->                 \* SignalState(**kw)
         IF Names(e.kw) \subseteq SignalSlots
         THEN IF ~Ok(e) THEN "X06.Signal/slot-rejected" ELSE IF Pairs(P) # Pairs(e.kw) THEN "X06.Signal/contents" ELSE ""
         ELSE IF Ok(e) THEN "X06.Signal/unknown-element-accepted" ELSE ""
    [] e.op = "g_set" ->
         IF e.n \in SignalSlots
         THEN IF ~Ok(e) THEN "X06.Signal/slot-rejected" ELSE IF Pairs(P) # Pairs(Upd(at, e.n, e.v)) THEN "X06.Signal/effect" ELSE ""
         ELSE IF Ok(e) THEN "X06.Signal/unknown-element-accepted"
              ELSE IF Pairs(P) # Pairs(at) THEN "X06.Signal/reject-not-atomic" ELSE ""
    [] e.op = "g_get" ->
         IF Pairs(P) # Pairs(at) THEN "X06.Signal/query-mutates"
         ELSE IF HasA(at, e.n) THEN (IF ~Ok(e) \/ e.v # ValA(at, e.n) THEN "X06.Signal/value" ELSE "")
         ELSE IF Ok(e) /\ ~IsNone(e.v) THEN "X06.Signal/value-of-unset-element" ELSE ""      \* silent: AttributeError or None
    [] OTHER -> "machinery/unknown-signal-op"
MetaSlots == {"meta_data_str", "meta_data_int", "meta_data_float", "meta_data_bool"}
(* values: "N" None, "D" a dictionary <<id>>, "?" anything that is no dictionary *)
MClause(at, e) ==
  LET P == e.post IN
  CASE e.op = "m_new" ->                 \* MetaInformationState(**kw), every argument defaults to None
         IF ~Ok(e) THEN "X06.Meta/constructor-raises"
         ELSE IF Names(P) # MetaSlots \/ \E n \in MetaSlots : ValA(P, n) # KwVal(e.kw, n) THEN "X06.Meta/contents" ELSE ""
    [] e.op = "m_set" ->
         IF e.v.k = "D"
         THEN IF ~Ok(e) THEN "X06.Meta/dictionary-rejected" ELSE IF Pairs(P) # Pairs(Upd(at, e.n, e.v)) THEN "X06.Meta/effect" ELSE ""
         ELSE IF Ok(e) THEN "X06.Meta/non-dictionary-accepted"
              ELSE IF Pairs(P) # Pairs(at) THEN "X06.Meta/reject-not-atomic" ELSE ""
    [] OTHER -> "machinery/unknown-meta-op"

(* ======================================================================================== *)
(* 6. validity.py.  Input tokens:                                                           *)
(*   [t |-> "s", k |-> kind, g, n, u]   scalar of python / numpy type `kind` with the value *)
(*        g = 0: n/4    g = 1: n*pi/4 moved by u floating-point neighbours (u in -1..1)     *)
(*        g = 2: n = 0 nan, n = 1 +inf, n = -1 -inf                                          *)
(*   [t |-> "x", k |-> "str" | "None" | "dict"]                     no number at all        *)
(*   [t |-> "v", k |-> "array" | "list" | "tuple", d |-> dtype, e |-> <<<<g, n, u>>, ...>>] *)
(*   [t |-> "m", k |-> "array" | "list", d |-> dtype, r |-> rows, c |-> columns, nan |-> 0/1] *)
(*   [t |-> "nd", dim |-> 0 | 3]                                    0-d / 3-d float array   *)
(* ======================================================================================== *)
RealKinds   == {"int", "float", "np.float64", "np.float32", "np.int64", "np.int32", "np.uint8"}
IntKinds    == {"int", "np.int64", "np.int32", "np.uint8"}
FloatKinds  == RealKinds \ IntKinds
EitherKinds == {"bool", "np.bool_", "Fraction"}     \* silent: booleans and exact rationals
ComplexKinds == {"complex", "np.complex128"}        \* not REAL numbers
RealDtypes  == {"f8", "f4", "i8", "i4"}
EitherDtypes == {"b1", "O"}                         \* silent: boolean arrays, object arrays holding python numbers
(* order-preserving integer key of a finite value for the grids used (|n| <= 40 for g = 0, |n| <= 9 for g = 1) *)
Key(g, n, u)  == IF g = 0 THEN n * 1000 ELSE n * 3142 + u
Finite(x)     == x.g # 2
KeyOf(x)      == Key(x.g, x.n, x.u)
And3(a, b)    == IF a = "F" \/ b = "F" THEN "F" ELSE IF a = "T" /\ b = "T" THEN "T" ELSE "E"
Or3(a, b)     == IF a = "T" \/ b = "T" THEN "T" ELSE IF a = "F" /\ b = "F" THEN "F" ELSE "E"
B3(b)         == IF b THEN "T" ELSE "F"
RECURSIVE All3(_, _)
All3(s, i)    == IF i > Len(s) THEN "T" ELSE And3(s[i], All3(s, i + 1))

(* is_real_number: "True if the provided variable is a scalar number" (of the REAL numbers) *)
IsReal(x) == IF x.t = "s" THEN (IF x.k \in RealKinds THEN (IF Finite(x) THEN "T" ELSE "E")      \* silent: nan / inf
                                ELSE IF x.k \in EitherKinds THEN "E" ELSE "F")
             ELSE IF x.t = "nd" /\ x.dim = 0 THEN "E"                                           \* silent: 0-d array
             ELSE "F"
Integral(x) == x.g = 0 /\ x.n % 4 = 0
(* is_integer_number: "True if the provided variable is an integer number" *)
IsInteger(x) == IF x.t # "s" THEN (IF x.t = "nd" /\ x.dim = 0 THEN "E" ELSE "F")
                ELSE IF x.k \in IntKinds THEN "T"
                ELSE IF x.k \in EitherKinds THEN "E"
                ELSE IF x.k \in FloatKinds /\ Integral(x) THEN "E"                              \* silent: 2.0
                ELSE "F"
SignIs(x, s) == \* three-valued: the sign of the number x is s (1 positive, -1 negative)
  IF IsReal(x) = "F" THEN "F"
  ELSE IF x.t # "s" \/ x.k \in EitherKinds THEN "E"
  ELSE IF x.g = 2 THEN (IF x.n = s THEN "E" ELSE "F")                                            \* silent: inf; nan has no sign
  ELSE B3(KeyOf(x) * s > 0)
IsNatural(x)  == And3(IsInteger(x), IF x.t = "s" /\ Finite(x) THEN (IF x.k \in EitherKinds THEN "E" ELSE B3(KeyOf(x) >= 0)) ELSE "E")
IsPositive(x) == SignIs(x, 1)            \* "(0 is NOT positive)"
IsNegative(x) == SignIs(x, -1)           \* "Checks if a provided variable is a negative number"
IsValidLength(x) == And3(IsNatural(x), IsPositive(x))     \* "non-zero and positive"

(* is_real_number_vector(x, length): "a vector of real numbers"; `length` "tests if the vector is a real vector of specified length" *)
ElemReal(d, el) == IF d \in RealDtypes THEN (IF el[1] = 2 THEN "E" ELSE "T") ELSE IF d \in EitherDtypes THEN "E" ELSE "F"
LenOk(m, len)   == len = -1 \/ m = len                    \* length -1 encodes None
IsRealVector(x, len) ==
  IF x.t = "m" /\ x.r = 0 THEN "E"                                                               \* silent: an array without rows
  ELSE IF x.t # "v" THEN "F"
  ELSE And3(And3(IF x.k = "array" THEN "T" ELSE "E",                                            \* silent: list / tuple as vector
                 IF x.e = <<>> THEN (IF len <= 0 THEN "E" ELSE "F")                             \* silent: the empty vector
                 ELSE All3([i \in DOMAIN x.e |-> ElemReal(x.d, x.e[i])], 1)),
            B3(LenOk(Len(x.e), len)))
(* is_list_of_numbers(x, length): "a list of numbers" *)
IsListOfNumbers(x, len) ==
  IF x.t = "m" /\ x.r = 0 THEN "E"                                                               \* silent: the empty list
  ELSE IF x.t # "v" THEN "F"
  ELSE And3(IF x.k = "list" THEN "T" ELSE IF x.k = "tuple" THEN "E" ELSE "E",                   \* silent: other sequences
            IsRealVector([x EXCEPT !.k = "array"], len))

(* is_in_interval(x, lo, hi): "True if the specified number (or vector) is within [x_min, x_max]"; a bound may be None; *)
(* "provided lower / upper bound is not valid" (AssertionError) for a bound that is no real number                   *)
IsNoneTok(b)  == b.t = "x" /\ b.k = "None"
BoundBad(b)   == IF IsNoneTok(b) THEN "F" ELSE IF IsReal(b) = "F" THEN "T" ELSE IF IsReal(b) = "T" /\ Finite(b) THEN "F" ELSE "E"
Within1(g, n, u, lo, hi) ==     \* a finite or special number against the (valid) bounds
  IF g = 2 /\ n = 0 THEN (IF IsNoneTok(lo) /\ IsNoneTok(hi) THEN "E" ELSE "F")                   \* nan is in no bounded interval
  ELSE IF g = 2 THEN "E"                                                                        \* silent: infinities
  ELSE B3((IsNoneTok(lo) \/ (Finite(lo) /\ KeyOf(lo) <= Key(g, n, u)) \/ (~Finite(lo) /\ lo.n = -1))
          /\ (IsNoneTok(hi) \/ (Finite(hi) /\ Key(g, n, u) <= KeyOf(hi)) \/ (~Finite(hi) /\ hi.n = 1)))
InInterval(x, lo, hi) ==
  IF BoundBad(lo) = "T" \/ BoundBad(hi) = "T" THEN "A"
  ELSE IF BoundBad(lo) = "E" \/ BoundBad(hi) = "E" THEN "*"                                     \* silent: nan / inf / boolean bounds
  ELSE IF x.t = "s" THEN And3(IsReal(x), IF x.k \in EitherKinds THEN "E" ELSE Within1(x.g, x.n, x.u, lo, hi))
  ELSE IF x.t = "v" THEN And3(IsRealVector(x, -1),
                              IF x.e = <<>> THEN "E" ELSE All3([i \in DOMAIN x.e |-> Within1(x.e[i][1], x.e[i][2], x.e[i][3], lo, hi)], 1))
  ELSE IF x.t \in {"m", "nd"} THEN (IF x.t = "m" /\ x.k = "array" /\ x.d \notin RealDtypes \cup EitherDtypes THEN "F" ELSE "E")  \* silent: arrays that are no vectors
  ELSE "F"
TwoPi(s)      == [t |-> "s", k |-> "float", g |-> 1, n |-> 8 * s, u |-> 0]
(* is_valid_orientation(theta): "(scalar or vector) is a valid orientation in the interval [-2pi,2pi]" *)
IsValidOrientation(x) == InInterval(x, TwoPi(-1), TwoPi(1))
NoneTok       == [t |-> "x", k |-> "None"]
(* is_valid_velocity / is_valid_acceleration(v, lo, hi): any scalar or vector, "with respect to specified range" *)
IsValidVelocity(x, lo, hi) == IF IsNoneTok(lo) /\ IsNoneTok(hi) THEN Or3(IsReal(x), IsRealVector(x, -1)) ELSE InInterval(x, lo, hi)

(* is_valid_polyline(p, length): "a list of points (xi,yi)^T or (xi,yi,zi)^T. The list must have a shape of (n,2) or (n,3)", *)
(* at least two points; is_valid_array_of_vertices: at least one; `length` must be a valid length (assert)                   *)
LenArgBad(len) == len = 0 \/ len < -1                     \* -1 encodes None; the driver also sends 0 and -2
Points(x, minrows, len, kinds) ==
  IF LenArgBad(len) THEN "A"
  ELSE IF x.t # "m" THEN (IF x.t = "v" /\ x.e = <<>> THEN "F" ELSE "F")
  ELSE And3(And3(IF x.k \in kinds THEN "T" ELSE "E",                                            \* silent: list of lists where an array is expected (and v.v.)
                 IF x.d \in RealDtypes THEN (IF x.nan = 1 THEN "E" ELSE "T") ELSE IF x.d \in EitherDtypes THEN "E" ELSE "F"),
            B3(x.r >= minrows /\ x.c \in {2, 3} /\ LenOk(x.r, len)))
IsValidPolyline(x, len)        == Points(x, 2, len, {"array"})
IsValidArrayOfVertices(x, len) == Points(x, 1, len, {"array"})
IsValidListOfVertices(x, len)  == Points(x, 1, len, {"list"})

(* ValidTypes: "Default Type Lists" *)
ValidTypesDoc == [NUMBERS |-> {"float", "int", "number"}, INT_NUMBERS |-> {"int", "integer"}, LISTS |-> {"list"}, ARRAY |-> {"ndarray"}]

Unary  == {"is_real_number", "is_integer_number", "is_natural_number", "is_positive", "is_negative", "is_valid_length",
           "is_valid_orientation"}
Expected(e) ==       \* the contract's answer for the call logged in e
  CASE e.fn = "is_real_number"      -> IsReal(e.x)
    [] e.fn = "is_integer_number"   -> IsInteger(e.x)
    [] e.fn = "is_natural_number"   -> IsNatural(e.x)
    [] e.fn = "is_positive"         -> IsPositive(e.x)
    [] e.fn = "is_negative"         -> IsNegative(e.x)
    [] e.fn = "is_valid_length"     -> IsValidLength(e.x)
    [] e.fn = "is_valid_orientation" -> IsValidOrientation(e.x)
    [] e.fn = "is_real_number_vector" -> IsRealVector(e.x, e.len)
    [] e.fn = "is_list_of_numbers"  -> IsListOfNumbers(e.x, e.len)
    [] e.fn = "is_in_interval"      -> InInterval(e.x, e.lo, e.hi)
    [] e.fn \in {"is_valid_velocity", "is_valid_acceleration"} -> IsValidVelocity(e.x, e.lo, e.hi)
    [] e.fn = "is_valid_polyline"   -> IsValidPolyline(e.x, e.len)
    [] e.fn = "is_valid_array_of_vertices" -> IsValidArrayOfVertices(e.x, e.len)
    [] e.fn = "is_valid_list_of_vertices"  -> IsValidListOfVertices(e.x, e.len)
    [] OTHER -> "machinery"
(* res: "T" / "F" (a boolean was returned), "A" (AssertionError), "X" (any other exception) *)
VClause(e) ==
  IF e.op = "vt" THEN (IF \E f \in DOMAIN ValidTypesDoc : Range(e.types[f]) # ValidTypesDoc[f] THEN "X06.ValidTypes" ELSE "")
  ELSE LET x == Expected(e) IN
       IF x = "machinery" THEN "machinery/unknown-predicate"
       ELSE IF x = "*" THEN ""
       ELSE IF e.res = "X" THEN "X06.Total/" \o e.fn                                           \* a check must answer, not crash
       ELSE IF x = "A" THEN (IF e.res # "A" THEN "X06.ArgumentCheck/" \o e.fn ELSE "")
       ELSE IF e.res = "A" THEN "X06.Total/" \o e.fn
       ELSE IF x = "E" \/ x = e.res THEN ""
       ELSE "X06.Validity/" \o e.fn \o (IF x = "T" THEN "/valid-rejected" ELSE "/invalid-accepted")

(* ======================================================================================== *)
DOps == {"d_pm", "d_epm"}
TOps == {"tj_new", "tj_append"}
GOps == {"g_new", "g_set", "g_get"}
MOps == {"m_new", "m_set"}
VOps == {"v", "vt"}
Empty == [ob |-> Absent, g |-> <<>>, m |-> <<>>]
Clause(st, e) == CASE e.op \in SOps -> SClause(st.ob, e)
                   [] e.op \in DOps -> DClause(e)
                   [] e.op \in TOps -> TClause(e)
                   [] e.op \in GOps -> GClause(st.g, e)
                   [] e.op \in MOps -> MClause(st.m, e)
                   [] e.op \in VOps -> VClause(e)
                   [] OTHER -> "machinery/unknown-op"
Post(st, e) == [ob |-> IF e.op \in SOps THEN SPost(st.ob, e) ELSE st.ob,
                g  |-> IF e.op \in GOps THEN e.post ELSE st.g,
                m  |-> IF e.op \in MOps THEN e.post ELSE st.m]

(* ---- laws of the contract operators (checked by TLC in MC_StateAlgebra) ----------------- *)
LawFillIdempotent(at)  == Filled(Filled(at)) = Filled(at) /\ Used(Filled(at)) = Names(at)
LawFillKeeps(at)       == \A i \in DOMAIN at : ~IsNone(at[i].v) => Filled(at)[i] = at[i]
LawConvIdempotent(at, tc) == Conv(Conv(at, tc), tc) = Conv(at, tc)
LawConvNames(at, tc)   == Names(Conv(at, tc)) = FieldSet(tc)
LawConvDrops(at, tc)   == Used(Conv(at, tc)) = Used(at) \cap FieldSet(tc)
(* a conversion into a class that declares every attribute of the source class and back is the identity *)
LawConvRoundTrip(c, at, tc) == (c \in DataClasses /\ Names(at) = FieldSet(c) /\ FieldSet(c) \subseteq FieldSet(tc))
                                  => SameAttrs(Conv(Conv(at, tc), c), at)
(* conversions compose: going through an intermediate class loses exactly what that class cannot hold *)
LawConvCompose(at, c1, c2) == FieldSet(c2) \subseteq FieldSet(c1) => Conv(Conv(at, c1), c2) = Conv(at, c2)
LawUsedSubset(at)      == Used(at) \subseteq Names(at)
LawHasValueUsed(c, at) == \A n \in Names(at) : (HasValue(c, at, n) = "T") <=> (n \in Used(at))
LawPythUnit(K, x, y)   == OnGrid(K, x, y) => CosK(K, x, y) * CosK(K, x, y) + SinK(K, x, y) * SinK(K, x, y) = K * K
LawNaturalIsReal(x)    == IsNatural(x) = "T" => (IsInteger(x) = "T" /\ IsReal(x) = "T")
LawSignExclusive(x)    == ~(IsPositive(x) = "T" /\ IsNegative(x) = "T")
LawLengthIsPositive(x) == IsValidLength(x) = "T" => (IsNatural(x) = "T" /\ IsPositive(x) = "T")
LawIntervalMonotone(x, lo, hi, lo2, hi2) ==      \* a wider interval contains everything the narrower one contains
   (InInterval(x, lo, hi) = "T" /\ InInterval(x, lo2, hi2) \in {"T", "F"}
    /\ Finite(lo) /\ Finite(hi) /\ Finite(lo2) /\ Finite(hi2) /\ KeyOf(lo2) <= KeyOf(lo) /\ KeyOf(hi) <= KeyOf(hi2))
      => InInterval(x, lo2, hi2) = "T"
LawOrientationBound(x) == IsValidOrientation(x) = "T" =>        \* 2pi < 7
   InInterval(x, [t |-> "s", k |-> "float", g |-> 0, n |-> -28, u |-> 0], [t |-> "s", k |-> "float", g |-> 0, n |-> 28, u |-> 0]) = "T"
LawPolylineIsVertices(x, len) == IsValidPolyline(x, len) = "T" => IsValidArrayOfVertices(x, len) = "T"
LawLengthRefines(x, len) == (len > 0 /\ IsValidPolyline(x, len) = "T") => IsValidPolyline(x, -1) = "T"
=================================================================================
