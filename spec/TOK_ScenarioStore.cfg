SPECIFICATION Spec
CONSTANTS
  DEV_ListRemoveInterKeepsIncoming = FALSE
  DEV_PartialIntersection = FALSE
  DEV_PartialNetwork = FALSE
  DEV_AddNetOnNonEmpty = FALSE
  DEV_HangingFreesNamedIds = FALSE
  MaxGen = 0
  Universe = {}
VIEW View
