SPECIFICATION TSpec
