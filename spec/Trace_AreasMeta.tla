--------------------------- MODULE Trace_AreasMeta ---------------------------
(* Trace validation for X07: every call recorded on a real LaneletNetwork / Scenario with areas, *)
(* on Area / AreaBorder / Lanelet setters, on two live Scenario objects (meta data), on the      *)
(* ScenarioID constructor, on GeoTransformation / Location / Environment / Time objects and on   *)
(* the enums (arguments, result, observable contents after the call) is checked against the      *)
(* contract of AreasMeta.tla.  Trace steps are total: a rejected event is reported with the name  *)
(* of the failing clause and the specification state is re-synchronised to the logged contents.  *)
EXTENDS AreasMeta, Json, IOUtils
Traces == ndJsonDeserialize(IOEnv.TRACE_FILE)

VARIABLES tid, l, st, err
tvars == <<tid, l, st, err>>

TInit == tid \in 1..Len(Traces) /\ l = 1 /\ st = Empty /\ err = 0
TStep == /\ l <= Len(Traces[tid].ev)
         /\ LET e == Traces[tid].ev[l]
                c == Clause(st, e)
            IN /\ err' = IF c = "" THEN err ELSE IF PrintT(<<"REJECT", tid, l, c>>) THEN err + 1 ELSE err
               /\ st' = Post(st, e)
         /\ l' = l + 1 /\ UNCHANGED tid
TSpec == TInit /\ [][TStep]_tvars
=================================================================================
