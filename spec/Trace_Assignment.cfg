SPECIFICATION TSpec
