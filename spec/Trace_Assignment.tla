------------------------------ MODULE Trace_Assignment ------------------------------
(* Trace validation for C07.  The trace header carries the lattice world; every event carries the   *)
(* recorded forward relations of all obstacles in the scenario and the registries of all lanelets   *)
(* after the call.                                                                                   *)
EXTENDS Assignment, Json, IOUtils
Traces == ndJsonDeserialize(IOEnv.TRACE_FILE)
VARIABLES tid, l, err,
          cur,      \* the CURRENT lattice world: obstacles at their current poses, remaining lanelets
          sync,     \* obstacles whose recorded relations and the registries were produced by the same network
          cm        \* obstacles whose registrations follow the CENTRE relation (last assigned with use_center_only)
tvars == <<tid, l, err, cur, sync, cm>>

World(w) == [L |-> {r[1] : r \in Range(w.lan)},
             lan |-> [i \in {r[1] : r \in Range(w.lan)} |-> LET r == CHOOSE r \in Range(w.lan) : r[1] = i IN <<r[2], r[3], r[4], r[5]>>],
             O |-> {r.id : r \in Range(w.obs)},
             ob |-> [i \in {r.id : r \in Range(w.obs)} |-> CHOOSE r \in Range(w.obs) : r.id = i]]
Rec(e, o) == CHOOSE r \in Range(e.obs) : r.id = o                          \* logged relations of obstacle o
Present(e) == {r.id : r \in Range(e.obs)}
AtT(pairs, t) == IF \E p \in Range(pairs) : p[1] = t THEN Range((CHOOSE p \in Range(pairs) : p[1] = t)[2]) ELSE {}
(* recorded shape relation of obstacle o at time t (initial relation at t0, prediction assignment afterwards) *)
RecShape(W, e, o, t) == LET r == Rec(e, o) IN IF t = W.ob[o].t0 THEN (IF r.isf = 1 THEN Range(r.is) ELSE {}) ELSE AtT(r.sa, t)
RecCenter(W, e, o, t) == LET r == Rec(e, o) IN IF t = W.ob[o].t0 THEN (IF r.icf = 1 THEN Range(r.ic) ELSE {}) ELSE AtT(r.ca, t)
Reg(e, lid) == CHOOSE r \in Range(e.reg) : r.id = lid
Times(W) == 0..8

Geometry(W, e) ==      \* after assign / open: recorded relations equal the lattice truth
    LET bad(o, t) == IF RecCenter(W, e, o, t) # ExpCenter(W, W.ob[o], t) THEN "CenterCorrect"
                     ELSE IF ~(MustShape(W, W.ob[o], t) \subseteq RecShape(W, e, o, t)) THEN
                          (IF W.ob[o].shape[1] = "disc" /\ MustHalf(W, W.ob[o], t) \subseteq RecShape(W, e, o, t)
                           THEN "ShapeCorrect/missing-beyond-half-radius" ELSE "ShapeCorrect/missing")
                     ELSE IF ~(RecShape(W, e, o, t) \subseteq ExpShape(W, W.ob[o], t)) THEN "ShapeCorrect/extra" ELSE ""
        B == {<<o, t>> \in Present(e) \X Times(W) : t >= W.ob[o].t0 /\ t <= LastT(W.ob[o]) /\ bad(o, t) # ""}
    IN IF B = {} THEN ""
       ELSE LET x == CHOOSE x \in B : TRUE IN
            "C07." \o bad(x[1], x[2]) \o "/" \o W.ob[x[1]].kind \o "/" \o W.ob[x[1]].shape[1]
(* assign_obstacles_to_lanelets(use_center_only=True): only the centre relation is recorded and the registries follow   *)
(* the centres until the next full assignment (obstacles in `cm`)                                                       *)
RecGuide(W, cmo, e, o, t) == IF o \in cmo THEN RecCenter(W, e, o, t) ELSE RecShape(W, e, o, t)
GeometryCenter(W, e) ==
    LET B == {<<o, t>> \in Present(e) \X Times(W) : t >= W.ob[o].t0 /\ t <= LastT(W.ob[o])
                                                     /\ RecCenter(W, e, o, t) # ExpCenter(W, W.ob[o], t)}
    IN IF B = {} THEN "" ELSE LET x == CHOOSE x \in B : TRUE IN
       "C07.CenterCorrect/center-only/" \o W.ob[x[1]].kind \o "/" \o W.ob[x[1]].shape[1]
Inverse(W, sy, cmo, e) ==   \* always: registries are exactly the inverse of the recorded shape relations (obstacles in sync)
    IF \E lid \in W.L : (Range(Reg(e, lid).st) \cap sy) #
            {o \in Present(e) \cap sy : W.ob[o].kind = "static" /\ lid \in RecGuide(W, cmo, e, o, W.ob[o].t0)}
    THEN "C07.RegistryInverse/static"
    ELSE IF \E lid \in W.L, t \in Times(W) : (AtT(Reg(e, lid).dy, t) \cap sy) #
            {o \in Present(e) \cap sy : W.ob[o].kind = "dynamic" /\ t >= W.ob[o].t0 /\ t <= LastT(W.ob[o]) /\ lid \in RecGuide(W, cmo, e, o, t)}
    THEN "C07.RegistryInverse/dynamic"
    ELSE IF \E lid \in W.L : ~(Range(Reg(e, lid).st) \subseteq Present(e))
    THEN "C07.RegistryInverse/static-absent-obstacle"
    ELSE ""
Clause(W, sy, cmo, e) ==
    IF e.exc # "None" THEN (IF e.op = "remove" THEN "C07.RemoveTotal" ELSE "C07.Total/" \o e.op)
    ELSE LET g == IF e.op \in {"assign", "open_xml", "open_pb"} THEN Geometry(W, e)
                  ELSE IF e.op = "assign_center" THEN GeometryCenter(W, e) ELSE "" IN
         IF g # "" THEN g ELSE Inverse(W, sy, cmo, e)

(* how a call changes the lattice world (the recorded relations and registries are logged, not modelled here) *)
ShiftPoses(ps, d) == [i \in DOMAIN ps |-> <<ps[i][1] + d[1], ps[i][2] + d[2], ps[i][3]>>]
NextWorld(W, W0, e) ==
    IF e.exc # "None" THEN W
    ELSE CASE e.op = "move"           -> [W EXCEPT !.ob[e.arg] = [@ EXCEPT !.poses = ShiftPoses(@, e.d)]]
           [] e.op = "remove_lanelet" -> [W EXCEPT !.L = @ \ {e.arg}]
           [] e.op = "move_network"   -> [W EXCEPT !.lan = [i \in DOMAIN @ |-> <<@[i][1] + e.d[1] \div 2, @[i][2] + e.d[2] \div 2,
                                                                                 @[i][3] + e.d[1] \div 2, @[i][4] + e.d[2] \div 2>>]]
           [] e.op = "replace_network" -> [W EXCEPT !.L = W0.L, !.lan = W0.lan]      \* a fresh copy of the original network
           [] e.op = "add" /\ e.fresh = 1 -> [W EXCEPT !.ob[e.arg] = W0.ob[e.arg]]   \* rebuilt from the descriptor
           [] e.op \in {"open_xml", "open_pb"} -> W                                    \* the file carries the current world
           [] OTHER -> W
NextSync(W, sy, e) ==
    IF e.exc # "None" THEN sy
    ELSE CASE e.op \in {"assign", "open_xml", "open_pb"} -> Present(e)
           [] e.op = "replace_network" -> {}             \* recorded relations refer to the old network until re-assigned
           [] e.op = "move_network" -> sy                \* registries and recorded relations still mirror each other
           [] e.op = "assign_center" -> Present(e)
           [] e.op = "add"    -> sy \cup {e.arg}
           [] e.op = "remove" -> sy \ {e.arg}
           [] OTHER -> sy

NextCm(cmo, e) ==
    IF e.exc # "None" THEN cmo
    ELSE CASE e.op = "assign_center" -> Present(e)
           [] e.op \in {"assign", "open_xml", "open_pb"} -> {}
           [] e.op \in {"add", "remove"} -> cmo \ {e.arg}
           [] OTHER -> cmo
TInit == tid \in 1..Len(Traces) /\ l = 1 /\ err = 0 /\ cur = World(Traces[tid].world) /\ sync = {} /\ cm = {}
TStep == /\ l <= Len(Traces[tid].ev)
         /\ LET e  == Traces[tid].ev[l]
                W1 == NextWorld(cur, World(Traces[tid].world), e)
                s1 == NextSync(cur, sync, e)
                c1 == NextCm(cm, e)
                c  == Clause(W1, s1, c1, e)
            IN /\ err' = IF c = "" THEN err ELSE IF PrintT(<<"REJECT", tid, l, c>>) THEN err + 1 ELSE err
               /\ cur' = W1 /\ sync' = s1 /\ cm' = c1
         /\ l' = l + 1 /\ UNCHANGED tid
TSpec == TInit /\ [][TStep]_tvars
===================================================================================
