SPECIFICATION TSpec
