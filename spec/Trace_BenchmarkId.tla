--------------------------- MODULE Trace_BenchmarkId ---------------------------
(* Trace validation for C13.  Every event was recorded from the real ScenarioID /  *)
(* Solution / CommonRoadSolutionReader code; texts are logged as token sequences   *)
(* (same lexical classes as BenchmarkId.tla), ids as field records.  The expected  *)
(* tokens / fields are recomputed here with PrintId / Normalize / PrintSol.        *)
(*   f      field record handed to the ScenarioID constructor (pk = how the        *)
(*          prediction ids were spelled: "none", "int", "list")                    *)
(*   toks   tokens of str(id) resp. Solution.benchmark_id                          *)
(*   pf     fields of ScenarioID.from_benchmark_id(str(id), id.scenario_version)   *)
(*   eq_op / eq_po   original == parsed, parsed == original (0/1)                  *)
(*   retoks tokens of str(parsed) resp. benchmark_id of the re-read Solution       *)
(*   fld, b present on events recorded after `obj.<fld> = <value of fld in id b>` *)
(*   pp     planning problem ids of the passed planning problem solutions, ord = Solution.planning_problem_ids,  *)
(*          nodes = planningProblem attributes of the written trajectory nodes,     *)
(*          got_assoc = (planning problem id, model, type, cost) of the read Solution *)
(*   lib    1 iff ScenarioID.benchmark_id_pattern fully matches str(id)            *)
(*   got_*  fields of the Solution returned by CommonRoadSolutionReader.fromstring *)
(*          (route "reader") or by _parse_benchmark_id/_parse_vehicle_id ("direct")*)
EXTENDS BenchmarkId, IOUtils
Traces == ndJsonDeserialize(IOEnv.TRACE_FILE)

VARIABLES tid, l, err
tvars == <<tid, l, err>>

(* events recorded after an assignment `object.<fld> = value of that field in id b` carry fld and b; the id the
   object then is, is computed here *)
FOf(e)   == IF "fld" \in DOMAIN e THEN After(e.f, e.fld, e.b) ELSE e.f
(* the solution as passed in: planning problem solution i has planning problem id pp[i], vehicle vs[i], cost cs[i] *)
SolGiven(e) == [vs |-> e.vs, cs |-> e.cs, pp |-> e.pp, f |-> FOf(e)]
(* ord = Solution.planning_problem_ids of the real object: the order in which the library lists the planning problem
   solutions.  The printed / parsed lists are positional in THAT order (the statement does not fix which order). *)
SolIn(e) == IF "ord" \in DOMAIN e /\ IsPermOf(e.ord, e.pp) THEN Arrange(SolGiven(e), e.ord) ELSE SolGiven(e)
GotAssignment(a) == {<<a[i].pp, a[i].m, a[i].t, a[i].c>> : i \in 1..Len(a)}

Clause(e) ==
  CASE e.op = "construct" ->
         IF ~Valid(e.f) THEN "driver/invalid-id-case"
         ELSE IF e.res # "ok" THEN "C13.Total/construct" ELSE ""
    [] e.op = "set" ->            \* the object (printed once before) gets one field assigned
         IF ~ValidSet(e.f, e.fld, e.b) THEN "driver/invalid-set-case"
         ELSE IF e.res # "ok" THEN "C13.Total/set" ELSE ""
    [] e.op = "print" ->
         IF e.res # "ok" THEN "C13.Total/print"
         ELSE IF e.toks # PrintId(FOf(e)) THEN "C13.Print" ELSE ""
    [] e.op = "grammar" ->
         IF ~Accepts(IdGrammar, e.toks) THEN "C13.Grammar"
         ELSE IF e.lib # 1 THEN "C13.Grammar/library-pattern" ELSE ""
    [] e.op = "parse" ->
         IF e.res # "ok" THEN "C13.Total/parse"
         ELSE IF ~SameId(e.pf, Normalize(FOf(e))) THEN "C13.ParseFields" ELSE ""
    [] e.op = "eq" ->
         IF e.res # "ok" THEN "C13.Total/eq"
         ELSE IF e.eq_op # 1 \/ e.eq_po # 1 THEN "C13.ParseEqual" ELSE ""
    [] e.op = "reject" ->         \* obj.<fld> = <invalid value>; raised = 1 iff the assignment raised.  pf / toks / eq_* / rt
                                  \* describe the object after the exception was caught (eq_* against a copy taken before,
                                  \* rt = 1 iff it still equals the id parsed from its text)
         IF ~Valid(e.f) THEN "driver/invalid-id-case"
         ELSE IF e.raised = 0 THEN ""                      \* silently accepted: outside the statement
         ELSE IF ~SameId(e.pf, Normalize(e.f)) \/ e.eq_op # 1 \/ e.eq_po # 1 THEN "C13.RejectAtomic"
         ELSE IF e.toks # PrintId(e.f) THEN "C13.RejectAtomic/print"
         ELSE IF e.rt # 1 THEN "C13.RejectAtomic/round-trip" ELSE ""
    [] e.op = "fresh" ->          \* same = 1 iff a second parse of the text returned the very object the first parse returned
         IF e.same # 0 THEN "C13.ParseFresh" ELSE ""
    [] e.op = "reprint" ->
         IF e.res # "ok" THEN "C13.Total/reprint"
         ELSE IF e.retoks # e.toks THEN "C13.Reprint" ELSE ""
    [] e.op = "sol_construct" ->
         IF ~ValidSol(SolGiven(e)) THEN "driver/invalid-solution-case"
         ELSE IF e.res # "ok" THEN "C13.Total/sol_construct" ELSE ""
    [] e.op = "sol_print" ->
         IF e.res # "ok" THEN "C13.Total/sol_print"
         ELSE IF e.toks # PrintSol(SolIn(e)) THEN "C13.Sol/Print" ELSE ""
    [] e.op = "sol_grammar" ->
         IF ~AcceptsSol(e.toks) THEN "C13.Sol/Grammar" ELSE ""
    [] e.op = "sol_align" ->      \* nodes = planning problem ids of the trajectory nodes of the written document, in order
         IF e.res # "ok" THEN "C13.Total/sol_write"
         ELSE IF ~IsPermOf(e.ord, e.pp) THEN "C13.Sol/Aligned/planning-problem-ids"
         ELSE IF ~AlignedText(SolGiven(e), e.toks, e.nodes) THEN "C13.Sol/Aligned" ELSE ""
    [] e.op = "sol_parse" ->
         IF e.res # "ok" THEN "C13.Total/" \o (IF e.route = "reader" THEN "sol_read" ELSE "sol_parse")
         ELSE CASE e.field = "vehicles"    -> IF e.got_vs # SolIn(e).vs THEN "C13.Sol/Parse/vehicles" ELSE ""
                [] e.field = "costs"       -> IF e.got_cs # SolIn(e).cs THEN "C13.Sol/Parse/costs" ELSE ""
                [] e.field = "scenario_id" -> IF ~SameId(e.got_f, Normalize(FOf(e))) \/ e.eq_op # 1 \/ e.eq_po # 1
                                              THEN "C13.Sol/Parse/scenario_id" ELSE ""
                [] e.field = "assignment"  -> IF Len(e.got_assoc) # Len(e.pp) \/
                                                 GotAssignment(e.got_assoc) # Assignment(e.vs, e.cs, e.pp)
                                              THEN "C13.Sol/Parse/assignment" ELSE ""
                [] e.field = "version"     -> IF e.got_ver # FOf(e).ver THEN "C13.Sol/Parse/version" ELSE ""
                [] OTHER -> "machinery/unknown-field"
    [] e.op = "sol_reprint" ->
         IF e.res # "ok" THEN "C13.Total/sol_reprint"
         ELSE IF e.retoks # e.toks THEN "C13.Sol/Reprint" ELSE ""
    [] OTHER -> "machinery/unknown-op"

TInit == tid \in 1..Len(Traces) /\ l = 1 /\ err = 0
TStep == /\ l <= Len(Traces[tid].ev)
         /\ LET e == Traces[tid].ev[l]
                c == Clause(e)
            IN err' = IF c = "" THEN err ELSE IF PrintT(<<"REJECT", tid, l, c>>) THEN err + 1 ELSE err
         /\ l' = l + 1 /\ UNCHANGED tid
TSpec == TInit /\ [][TStep]_tvars
=================================================================================
