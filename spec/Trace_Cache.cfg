SPECIFICATION TSpec
