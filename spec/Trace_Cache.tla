------------------------------- MODULE Trace_Cache -------------------------------
(* Trace validation for C11.  Mutator events carry the projected PRIMARY data after the call    *)
(* (adopted as the specification state); query events carry the answer of the real, possibly    *)
(* cache-backed, object and whether it agrees with a twin freshly constructed from the primary  *)
(* data.  Contract: answer = Recompute(primary) (Cache.tla) and fresh = 1.                       *)
EXTENDS Cache, Json, IOUtils
Traces == ndJsonDeserialize(IOEnv.TRACE_FILE)

VARIABLES tid, l, st, err
tvars == <<tid, l, st, err>>

Pair(q) == <<q[1], q[2]>>
Prim(r) ==
    [ob  |-> [has |-> r.ob.has, init |-> r.ob.init, t0 |-> r.ob.t0, traj |-> r.ob.traj, shp |-> r.ob.shp,
              pshp |-> r.ob.pshp, hist |-> r.ob.hist],
     net |-> [L |-> Range(r.net.L),
              ring |-> [i \in Range(r.net.L) |-> (CHOOSE p \in Range(r.net.ring) : p[1] = i)[2]]],
     lgt |-> [cyc |-> r.lgt.cyc, off |-> r.lgt.off]]
Band(s, e) ==      \* the query touches a lanelet boundary without meeting its interior: twin and object may differ by float noise
    CASE e.op = "find_pos"   -> MustByPos(s.net, <<e.arg[1], e.arg[2]>>) # FindByPos(s.net, <<e.arg[1], e.arg[2]>>)
      [] e.op = "find_shape" -> MustByShape(s.net, <<e.arg[1], e.arg[2]>>, <<1, 1>>) # FindByShape(s.net, <<e.arg[1], e.arg[2]>>, <<1, 1>>)
      [] OTHER -> FALSE
(* occ2 / state2: the same queries on a SECOND obstacle (not in the scenario, never mutated) whose trajectory was built *)
(* from the very state-list object of the first one; judged by the fresh-twin comparison only (clause C11.Fresh)       *)
IsQuery(op) == op \in {"occ", "state", "find_pos", "find_shape", "light", "polygon", "distance", "occ2", "state2"}

Want(s, e) ==      \* <<decidable by the lattice model, expected answer equals logged answer>>
    CASE e.op = "occ"        -> <<TRUE, {Pair(p) : p \in Range(e.res)} = OccAt(s.ob, e.arg[1])>>
      [] e.op = "state"      -> <<TRUE, e.res = StateAt(s.ob, e.arg[1])>>
      [] e.op = "find_pos"   -> <<TRUE, /\ MustByPos(s.net, <<e.arg[1], e.arg[2]>>) \subseteq Range(e.res)
                                        /\ Range(e.res) \subseteq FindByPos(s.net, <<e.arg[1], e.arg[2]>>)>>
      [] e.op = "find_shape" -> <<TRUE, /\ MustByShape(s.net, <<e.arg[1], e.arg[2]>>, <<1, 1>>) \subseteq Range(e.res)
                                        /\ Range(e.res) \subseteq FindByShape(s.net, <<e.arg[1], e.arg[2]>>, <<1, 1>>)>>
      [] e.op = "light"      -> <<TRUE, e.res = LightAt(s.lgt, e.arg[1])>>
      [] e.op = "polygon"    -> <<e.arg[1] \in s.net.L, e.arg[1] \in s.net.L /\ {Pair(p) : p \in Range(e.res)} = Range(s.net.ring[e.arg[1]])>>
      [] OTHER               -> <<FALSE, TRUE>>

Clause(s, e) ==
    IF e.exc # "None" THEN "C11.Total/" \o e.op
    ELSE IF IsQuery(e.op) THEN
         (LET w == Want(s, e) IN
          IF w[1] /\ ~w[2] THEN "C11.Recompute/" \o e.op
          ELSE IF e.fresh # 1 /\ ~Band(s, e) THEN "C11.Fresh/" \o e.op ELSE "")
    ELSE IF e.op = "update_initial_state" THEN
         (IF Prim(e.post).ob.hist # HistAfter(s.ob, e.arg[4]) THEN "C11.History/content"
          ELSE IF Cardinality(Range(e.hl)) # 1 THEN "C11.History/lengths"
          ELSE IF e.hl[1] # Len(HistAfter(s.ob, e.arg[4])) THEN "C11.History/lengths" ELSE "")
    ELSE ""

TInit == tid \in 1..Len(Traces) /\ l = 1 /\ st = Prim(Traces[tid].init) /\ err = 0
TStep == /\ l <= Len(Traces[tid].ev)
         /\ LET e == Traces[tid].ev[l]
                c == Clause(st, e)
            IN /\ err' = IF c = "" THEN err ELSE IF PrintT(<<"REJECT", tid, l, c>>) THEN err + 1 ELSE err
               /\ st' = IF IsQuery(e.op) THEN st ELSE Prim(e.post)
         /\ l' = l + 1 /\ UNCHANGED tid
TSpec == TInit /\ [][TStep]_tvars
===================================================================================
