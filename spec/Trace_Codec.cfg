SPECIFICATION TSpec
