------------------------------ MODULE Trace_Codec ------------------------------
EXTENDS Xsd2020a, Json, IOUtils
Traces == ndJsonDeserialize(IOEnv.TRACE_FILE)
VARIABLES tid, l, err
tvars == <<tid, l, err>>
Clause(e) ==
  CASE e.op = "xsd" ->
         IF e.exc # "" THEN "C03.Total/write"
         ELSE LET r == DocRule(e.els, e.ids, e.refs) IN
              IF (r = "") # (e.lxml = "valid") THEN "machinery/schema-transcription"
              ELSE IF r # "" THEN "C03." \o r
              ELSE IF e.reader # "ok" THEN "C03.ReaderAccepts" ELSE ""
    [] OTHER -> "machinery/unknown-op"
TInit == tid \in 1..Len(Traces) /\ l = 1 /\ err = 0
TStep == /\ l <= Len(Traces[tid].ev)
         /\ LET e == Traces[tid].ev[l]  c == Clause(e)
            IN err' = IF c = "" THEN err ELSE IF PrintT(<<"REJECT", tid, l, c>>) THEN err + 1 ELSE err
         /\ l' = l + 1 /\ UNCHANGED tid
TSpec == TInit /\ [][TStep]_tvars
=============================================================================
