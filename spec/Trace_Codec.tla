------------------------------ MODULE Trace_Codec ------------------------------
(* Trace validation for C01 / C02 / C03.  One trace per case, one event:                                          *)
(*   xml_roundtrip / pb_roundtrip   d, desc (descriptor), reuse (<<>> or <<[edit, w2]>>: the file read back is the  *)
(*                                  SECOND one written by one writer object, after the edit), orig (leaves of the    *)
(*                                  objects the harness built and edited),                                          *)
(*                                  back (leaves read back, reals as closeness classes), exc ("" | write | read)  *)
(*   xsd                            els / ids / refs (element entries of the written document), lxml verdict,      *)
(*                                  reader ("ok" | "exc"), exc ("")                                      *)
(* Expected leaves, carried fields, expressibility and the schema verdict come from Codec / Xsd2020a; the clause  *)
(* prefix names the owning property (C01 xml_roundtrip, C02 pb_roundtrip, C03 xsd).                               *)
EXTENDS Codec, Json, IOUtils
Traces == ndJsonDeserialize(IOEnv.TRACE_FILE)
VARIABLES tid, l, err
tvars == <<tid, l, err>>

RoundTrip(e, fmt) ==
  LET pre == IF fmt = "xml" THEN "C01." ELSE "C02."
      dE == EditOf(e.desc, e.reuse)          \* the scenario as it is when the (last) write happens
      dW == WrittenBy(e.desc, e.reuse)       \* what that write is asked to put into the file
      expr(d) == IF fmt = "xml" THEN XmlExpressible(d) ELSE PbExpressible(d)
  IN IF ~expr(e.desc) \/ ~ReuseOK(e.desc, e.reuse) \/ ~expr(dE) THEN {"driver/inexpressible-case"}
     ELSE IF e.orig # Leaves(dE) THEN {"driver/alpha-gamma"}      \* the harness built / edited / projected something else
     ELSE IF e.exc = "write" /\ (HasCyclelessLight(e.desc) \/ HasCyclelessLight(dE)) THEN {}   \* band, see Codec!HasCyclelessLight
     ELSE IF e.exc = "write" THEN {pre \o "Total/write"}
     ELSE IF e.exc = "read" THEN {pre \o "Total/read"}
     ELSE Diffs(fmt, OutsideBand(dW, Expected(fmt, dW)), OutsideBand(dW, e.back))   \* every differing leaf, one clause each

Single(c) == IF c = "" THEN {} ELSE {c}
Clauses(e) ==        \* the set of clauses an event fails ({} = accepted)
  CASE e.op = "xml_roundtrip" -> RoundTrip(e, "xml")
    [] e.op = "pb_roundtrip"  -> RoundTrip(e, "pb")
    [] e.op = "xsd" -> Single(
         IF e.exc # "" THEN "driver/no-document"               \* a writer crash is C01.Total/write; C03 speaks about written files
         ELSE LET r == DocRule(e.els, e.ids, e.refs) IN        \* lxml only cross-checks the transcription
              IF (r = "") # (e.lxml = "valid") THEN "machinery/schema-transcription"
              ELSE IF r # "" THEN "C03." \o r
              ELSE IF e.reader # "ok" THEN "C03.ReaderAccepts" ELSE "")
    [] OTHER -> {"machinery/unknown-op"}

TInit == tid \in 1..Len(Traces) /\ l = 1 /\ err = 0
TStep == /\ l <= Len(Traces[tid].ev)
         /\ LET e == Traces[tid].ev[l]  cs == Clauses(e)       \* one REJECT line per failed clause
            IN err' = IF cs = {} THEN err ELSE IF \A c \in cs : PrintT(<<"REJECT", tid, l, c>>) THEN err + 1 ELSE err
         /\ l' = l + 1 /\ UNCHANGED tid
TSpec == TInit /\ [][TStep]_tvars
=============================================================================
