SPECIFICATION TSpec
CONSTANTS
  HistBand = TRUE
  StrictReassign = FALSE
