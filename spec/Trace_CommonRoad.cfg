SPECIFICATION TSpec
CONSTANTS
  HistBand = TRUE
