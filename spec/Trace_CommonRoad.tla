--------------------------- MODULE Trace_CommonRoad ---------------------------
(* Trace validation for X10: every event carries the call (op, integer arguments a, string argument s), what   *)
(* it raised, query answers, and the FULL projected world after the call.  TLC computes Exp(pre, call) from   *)
(* CommonRoad.tla (the observed world only resolves the declared EITHER bands), compares it with the observed  *)
(* world component by component and names the failing clause; query answers are compared with Recompute(pre).  *)
(* Steps are total: after a rejection the specification state is re-synchronised to the observed world.         *)
EXTENDS CommonRoad, Json, IOUtils
Traces == ndJsonDeserialize(IOEnv.TRACE_FILE)

VARIABLES tid, l, st, err
tvars == <<tid, l, st, err>>

Rows(rows) == UNION {{<<r[1], x>> : x \in Range(r[2])} : r \in Range(rows)}        \* [[t, [ids]], ..] -> {<<t, id>>}
RowT(rows) == {r[1] : r \in Range(rows)}
World(w) ==
    LET Ls == {r.id : r \in Range(w.L)}
        LR(i) == CHOOSE r \in Range(w.L) : r.id = i
        Os == {r.id : r \in Range(w.O)}
        OR(o) == CHOOSE r \in Range(w.O) : r.id = o
        Ps == {r.id : r \in Range(w.P)}
        PR(i) == CHOOSE r \in Range(w.P) : r.id = i
        F(f) == [i \in LanU |-> IF i \in Ls THEN Range(LR(i)[f]) ELSE {}]
    IN [ids |-> Range(w.ids), L |-> Ls,
        ring |-> [i \in LanU |-> IF i \in Ls THEN LR(i).ring ELSE <<>>],
        succ |-> F("succ"), pred |-> F("pred"), sg |-> F("sg"), lt |-> F("lt"), regS |-> F("st"),
        regD |-> [i \in LanU |-> IF i \in Ls THEN Rows(LR(i).dy) ELSE {}],
        S |-> {r.id : r \in Range(w.S)}, spos |-> IF w.S = <<>> THEN <<>> ELSE w.S[1].pos,
        T |-> {r.id : r \in Range(w.T)},
        lgt |-> IF w.T = <<>> THEN NoLight ELSE [pos |-> w.T[1].pos, cyc |-> w.T[1].cyc, off |-> w.T[1].off],
        O |-> Os,
        ob |-> [o \in Os |-> LET r == OR(o) IN
                  [kind |-> r.kind, t0 |-> r.t0, init |-> r.init, has |-> r.has, traj |-> r.traj, shp |-> r.shp, pshp |-> r.pshp,
                   hist |-> r.hist, hl |-> r.hl,
                   rel |-> [isf |-> r.isf, is |-> Range(r.is), icf |-> r.icf, ic |-> Range(r.ic),
                            saT |-> RowT(r.sa), sa |-> Rows(r.sa), caT |-> RowT(r.ca), ca |-> Rows(r.ca)]]],
        P |-> Ps, pp |-> [i \in Ps |-> [init |-> PR(i).init, goal |-> PR(i).goal]]]

(* check_orig carries the world of the object left behind by the last copy *)
Ev(e) == IF e.op = "check_orig" /\ e.exc = "None" THEN [e EXCEPT !.rworld = World(e.rworld)] ELSE e

TInit == tid \in 1..Len(Traces) /\ l = 1 /\ st = [St0 EXCEPT !.W = World(Traces[tid].init)] /\ err = 0
TStep == /\ l <= Len(Traces[tid].ev)
         /\ LET e == Ev(Traces[tid].ev[l])
                p == World(e.post)
                c == IF l = 1 /\ st.W # W0 THEN "machinery/initial-world" ELSE Clause(st, e, p)
            IN /\ err' = IF c = "" THEN err ELSE IF PrintT(<<"REJECT", tid, l, c>>) THEN err + 1 ELSE err
               /\ st' = Post(st, e, p)
         /\ l' = l + 1 /\ UNCHANGED tid
TSpec == TInit /\ [][TStep]_tvars
=================================================================================
