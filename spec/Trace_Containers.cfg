SPECIFICATION TSpec
