SPECIFICATION TSpec
CONSTANTS
  ClassTable <- RealTable
  Base = {"time_begin", "time_end", "antialiased"}
  DefTok = "D"
