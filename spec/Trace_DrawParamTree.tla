------------------------- MODULE Trace_DrawParamTree -------------------------
(* Trace validation for X04: every call recorded on real parameter objects (BaseParam subclasses of           *)
(* commonroad/visualization/draw_params.py) and on a real MPRenderer - arguments, result and what is          *)
(* observable afterwards (values of all live parameter trees as differences to a default object; renderer     *)
(* buffers, artists attached to the axes, plot limits, plot centre) - is checked against the contract of      *)
(* DrawParamTree.tla.  The class table is the GENERATED module RenderTree (C19 re-generates it from           *)
(* dataclasses.fields of the real classes and reports a difference as SPEC-DRIFT).  Trace steps are total: a  *)
(* rejected event is reported with the name of the failing clause and the specification state is              *)
(* re-synchronised to what the event reports.                                                                 *)
EXTENDS DrawParamTree, Json, IOUtils
RT == INSTANCE RenderTree
RealTable == RT!ClassTable                      \* cfg: ClassTable <- RealTable
ASSUME SubTable(MiniTable, RealTable)           \* the model checker's excerpt is a part of the real table
Traces == ndJsonDeserialize(IOEnv.TRACE_FILE)

VARIABLES tid, l, st, err
tvars == <<tid, l, st, err>>

TInit == tid \in 1..Len(Traces) /\ l = 1 /\ st = Empty /\ err = 0
TStep == /\ l <= Len(Traces[tid].ev)
         /\ LET e == Traces[tid].ev[l]
                c == Clause(st, e)
            IN /\ err' = IF c = "" THEN err ELSE IF PrintT(<<"REJECT", tid, l, c>>) THEN err + 1 ELSE err
               /\ st' = IF e.op \in DOps \cup ROps THEN Post(st, e) ELSE st
         /\ l' = l + 1 /\ UNCHANGED tid
TSpec == TInit /\ [][TStep]_tvars
=================================================================================
