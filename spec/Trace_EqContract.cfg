SPECIFICATION TSpec
