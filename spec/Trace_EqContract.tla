--------------------------- MODULE Trace_EqContract ---------------------------
(* Trace validation for C12.  One event = one observed pair of real objects:                     *)
(*   [cls, x, y      class name and the two valuations (group -> token) the objects were built from *)
(*    kind           "node" (y is x itself), "copy" (y = deepcopy(x) or an independent rebuild),    *)
(*                   "perturb" (one group differs), "reorder" (one group re-inserted)               *)
(*    root           1 on the node event of a seed                                                  *)
(*    ctl            control for edges: x == (an independent rebuild of x from the same valuation)  *)
(*    eq_xy, eq_yx, ne_xy   x == y, y == x, x != y  as 0 / 1 (2 = the comparison raised)            *)
(*    hash_x, hash_y "ok" or "exc:<Type>";  hash_equal  1 iff both ok and equal                     *)
(*    sig]           "<Class>.<group>" / "<Class>.@default|@full|@deepcopy|@rebuild"                *)
(* The expected answer is Expected3 of EqContract.tla; an event may fail several clauses.           *)
(* History events (op = "mut"): x was built at valuation x (motion mark MotBefore(mk)), compared and *)
(* hashed first iff warm = 1, then changed in place by the public mutator `mut` of kind mk:          *)
(*   [cls, x, y, mk, mut, warm, mut_res ("ok" / "exc:<Type>"), n (update_initial_state: max length), *)
(*    eq_xy, eq_yx, ne_xy   mutated == fresh(y), fresh(y) == mutated, mutated != fresh(y)           *)
(*    stale_eq              mutated == fresh(x)   (a fresh object with the OLD values)              *)
(*    hash_x, hash_y, hash_equal   hash(mutated), hash(fresh(y)), equal                             *)
(*    hash_old              hash(fresh(x)) status                                                   *)
(*    sig]                  "<Class>.<mutator>" (warm) / "<Class>.<mutator>@cold"                   *)
EXTENDS EqContract, IOUtils
Traces == ndJsonDeserialize(IOEnv.TRACE_FILE)

VARIABLES tid, l, err
tvars == <<tid, l, err>>

Kinds == {"node", "copy", "perturb", "reorder"}
Shape(e) ==            \* the event must be an edge / node of the perturbation graph; anything else is a driver error
  IF e.cls \notin Classes THEN "machinery/unknown-class"
  ELSE IF ~(IsValuation(e.cls, e.x) /\ IsValuation(e.cls, e.y)) THEN "machinery/bad-valuation"
  ELSE IF e.kind \notin Kinds THEN "machinery/unknown-kind"
  ELSE IF e.kind \in {"node", "copy"} /\ e.x # e.y THEN "machinery/node-with-two-valuations"
  ELSE IF e.kind = "perturb" /\ Cardinality(Differing(e.x, e.y)) # 1 THEN "machinery/not-a-single-perturbation"
  ELSE IF e.kind = "reorder" /\ ~(ExpectedEq(e.x, e.y) /\ e.x # e.y) THEN "machinery/not-a-reorder"
  ELSE IF {e.eq_xy, e.eq_yx, e.ne_xy, e.ctl} \subseteq 0..2 /\ e.hash_equal \in 0..1 /\ e.root \in 0..1 THEN ""
  ELSE "machinery/bad-field"

Clauses(e) ==
  LET exp   == Expected3(e.cls, e.x, e.y)
      both  == e.eq_xy = 1 /\ e.eq_yx = 1
      any   == e.eq_xy = 1 \/ e.eq_yx = 1
      hok   == e.hash_x = "ok" /\ e.hash_y = "ok"
  IN  (IF e.kind = "node" /\ ~both THEN {"C12.Reflexive"} ELSE {})
      \cup (IF e.kind = "copy" /\ ~both THEN {"C12.CopyEqual"} ELSE {})
      \* a reorder is blamed only if rebuilding x in the SAME order gives an equal object; otherwise the node
      \* test of x has already reported C12.CopyEqual (<Class>.@rebuild) and the order is not the cause
      \cup (IF e.kind = "reorder" /\ ~both /\ e.ctl = 1 THEN {"C12.OrderInsensitive"} ELSE {})
      \cup (IF exp = "F" /\ any THEN {"C12.Sensitive"} ELSE {})
      \cup (IF exp = "F" /\ ~any /\ 2 \in {e.eq_xy, e.eq_yx} THEN {"C12.Sensitive/raises"} ELSE {})
      \cup (IF e.eq_xy # e.eq_yx THEN {"C12.Symmetric"} ELSE {})
      \cup (IF (e.eq_xy \in 0..1 /\ e.ne_xy # 1 - e.eq_xy) THEN {"C12.NeConsistent"} ELSE {})
      \* a crashing hash is reported once: on the seed, or on the edge whose perturbation introduces it
      \cup (IF (e.kind = "node" /\ e.root = 1 /\ e.hash_x # "ok") \/ (e.hash_x = "ok" /\ e.hash_y # "ok")
            THEN {"C12.HashTotal"} ELSE {})
      \cup (IF exp = "T" /\ hok /\ e.hash_equal # 1 THEN {"C12.HashConsistent"} ELSE {})

(* ---- history dimension ---- *)
ShapeMut(e) ==
  IF e.cls \notin Classes THEN "machinery/unknown-class"
  ELSE IF ~(IsValuation(e.cls, e.x) /\ IsValuation(e.cls, e.y)) THEN "machinery/bad-valuation"
  ELSE IF e.mk \notin MutKinds THEN "machinery/unknown-mutator-kind"
  ELSE IF ~IsMutation(e.cls, e.mk, e.x, e.y) THEN "machinery/not-a-mutation"
  ELSE IF e.n \notin AdvLengths \/ (e.mk # "adv" /\ e.n # 0) THEN "machinery/bad-history-length"
  ELSE IF e.mut_res # "ok" THEN "driver/mutator-raised"      \* the table promises an applicable public mutator
  ELSE IF {e.eq_xy, e.eq_yx, e.ne_xy, e.stale_eq} \subseteq 0..2 /\ e.hash_equal \in 0..1 /\ e.warm \in 0..1 THEN ""
  ELSE "machinery/bad-field"

ClausesMut(e) ==
  LET before == Desc(e.x, MotBefore(e.mk))
      after  == DescA(e.y, MotAfter(e.mk), IF e.mk = "adv" THEN AdvMark(e.x, e.n) ELSE <<>>)
      differ == ~ExpectedEqD(e.cls, before, after)           \* IsMutation guarantees it; kept for the reader
  IN  (IF differ /\ e.stale_eq = 1 THEN {"C12.Current/eq-stale"} ELSE {})
      \cup (IF e.eq_xy # 1 \/ e.eq_yx # 1 THEN {"C12.Current/ne-fresh"} ELSE {})
      \cup (IF (e.hash_y = "ok" /\ e.hash_x # "ok") \/ (e.hash_x = "ok" /\ e.hash_y = "ok" /\ e.hash_equal # 1)
            THEN {"C12.Current/hash"} ELSE {})
      \* hash() must not raise for an object the public API produced: blamed on the mutator when an object with
      \* the old values could still be hashed
      \cup (IF e.hash_old = "ok" /\ e.hash_x # "ok" THEN {"C12.HashTotal"} ELSE {})
      \cup (IF e.eq_xy # e.eq_yx THEN {"C12.Symmetric"} ELSE {})
      \cup (IF (e.eq_xy \in 0..1 /\ e.ne_xy # 1 - e.eq_xy) THEN {"C12.NeConsistent"} ELSE {})

(* ---- states no constructor produces (op = "raw"): the contract of the object itself ---- *)
(*   [cls, x, mut, warm, mut_res,  refl (x == x), refl_ne (x != x),                                            *)
(*    copy_xy, copy_yx (deepcopy), z (1 = a fresh object could be built from the current attribute values),    *)
(*    eq_xz, eq_zx, eq_xo, eq_ox (o = fresh object with the OLD values), hash_x, hash_c, hash_z, hash_old,      *)
(*    heq_c, heq_z, heq_o (hashes equal, 0 / 1), sig "<Class>.<mutator>[@cold]"]                                *)
ShapeRaw(e) ==
  IF e.cls \notin Classes THEN "machinery/unknown-class"
  ELSE IF ~IsValuation(e.cls, e.x) THEN "machinery/bad-valuation"
  ELSE IF ~IsRaw(e.cls, e.mut, e.x) THEN "machinery/not-a-mutation"
  ELSE IF e.mut_res # "ok" THEN "driver/mutator-raised"
  ELSE IF {e.refl, e.refl_ne, e.copy_xy, e.copy_yx, e.eq_xz, e.eq_zx, e.eq_xo, e.eq_ox} \subseteq 0..2
          /\ {e.z, e.warm, e.heq_c, e.heq_z, e.heq_o} \subseteq 0..1 THEN ""
  ELSE "machinery/bad-field"
ClausesRaw(e) ==
  LET ok(h) == h = "ok" IN
      (IF e.refl # 1 THEN {"C12.Reflexive"} ELSE {})
      \cup (IF e.refl \in 0..1 /\ e.refl_ne # 1 - e.refl THEN {"C12.NeConsistent"} ELSE {})
      \cup (IF e.copy_xy # 1 \/ e.copy_yx # 1 THEN {"C12.CopyEqual"} ELSE {})
      \cup (IF e.copy_xy # e.copy_yx \/ (e.z = 1 /\ e.eq_xz # e.eq_zx) \/ e.eq_xo # e.eq_ox THEN {"C12.Symmetric"} ELSE {})
      \cup (IF \/ (e.copy_xy = 1 /\ e.copy_yx = 1 /\ ok(e.hash_x) /\ ok(e.hash_c) /\ e.heq_c # 1)
               \/ (e.z = 1 /\ e.eq_xz = 1 /\ e.eq_zx = 1 /\ ok(e.hash_x) /\ ok(e.hash_z) /\ e.heq_z # 1)
               \/ (e.eq_xo = 1 /\ e.eq_ox = 1 /\ ok(e.hash_x) /\ ok(e.hash_old) /\ e.heq_o # 1)
            THEN {"C12.HashConsistent"} ELSE {})
      \cup (IF ok(e.hash_old) /\ ~ok(e.hash_x) THEN {"C12.HashTotal"} ELSE {})

(* ---- observed dimension (op = "obs"): queries run on x only / on x and its twin y ---- *)
(*   [cls, x, who, queries (names run), ctl (x == y before any query),                                          *)
(*    eq_xy, eq_yx, ne_xy (after the queries), eq_xc0, eq_c0x (deep copy taken before), eq_xc1, eq_c1x (after), *)
(*    hash_x, hash_y, heq_y, heq_c0, heq_c1 (hash(x) equals hash(y) / of the copies), sig "<Class>.observed:<who>"] *)
ShapeObs(e) ==
  IF e.cls \notin Classes THEN "machinery/unknown-class"
  ELSE IF ~IsValuation(e.cls, e.x) THEN "machinery/bad-valuation"
  ELSE IF e.who \notin Observers THEN "machinery/unknown-observer"
  ELSE IF ~(Range(e.queries) \subseteq Queries(e.cls, 0)) THEN "machinery/unknown-query"
  ELSE IF {e.ctl, e.eq_xy, e.eq_yx, e.ne_xy, e.eq_xc0, e.eq_c0x, e.eq_xc1, e.eq_c1x} \subseteq 0..2
          /\ {e.heq_y, e.heq_c0, e.heq_c1} \subseteq 0..1 THEN ""
  ELSE "machinery/bad-field"
ClausesObs(e) ==
  LET eqs == {e.eq_xy, e.eq_yx, e.eq_xc0, e.eq_c0x, e.eq_xc1, e.eq_c1x}
      hok == e.hash_x = "ok" /\ e.hash_y = "ok"
  IN  IF e.ctl # 1 THEN {}                \* unequal before any query: reported by the node tests, not a query effect
      ELSE (IF 2 \in eqs \cup {e.ne_xy} THEN {"C12.Observed/raises"} ELSE {})
      \cup (IF e.eq_xy = 0 \/ e.eq_yx = 0 THEN {"C12.Observed/ne-fresh"} ELSE {})
      \cup (IF 0 \in {e.eq_xc0, e.eq_c0x, e.eq_xc1, e.eq_c1x} THEN {"C12.Observed/copy"} ELSE {})
      \cup (IF e.eq_xy # e.eq_yx \/ e.eq_xc0 # e.eq_c0x \/ e.eq_xc1 # e.eq_c1x THEN {"C12.Symmetric"} ELSE {})
      \cup (IF e.eq_xy \in 0..1 /\ e.ne_xy \in 0..1 /\ e.ne_xy # 1 - e.eq_xy THEN {"C12.NeConsistent"} ELSE {})
      \cup (IF hok /\ (e.heq_y # 1 \/ e.heq_c0 # 1 \/ e.heq_c1 # 1) THEN {"C12.Observed/hash"} ELSE {})
      \cup (IF e.hash_y = "ok" /\ e.hash_x # "ok" THEN {"C12.HashTotal"} ELSE {})

Verdicts(e) == IF e.op = "obs" THEN (IF ShapeObs(e) # "" THEN {ShapeObs(e)} ELSE ClausesObs(e))
               ELSE IF e.op = "raw" THEN (IF ShapeRaw(e) # "" THEN {ShapeRaw(e)} ELSE ClausesRaw(e))
               ELSE IF e.op = "mut" THEN (IF ShapeMut(e) # "" THEN {ShapeMut(e)} ELSE ClausesMut(e))
               ELSE IF Shape(e) # "" THEN {Shape(e)} ELSE Clauses(e)

TInit == tid \in 1..Len(Traces) /\ l = 1 /\ err = 0
TStep == /\ l <= Len(Traces[tid].ev)
         /\ LET e == Traces[tid].ev[l]
            IN err' = err + Cardinality({c \in Verdicts(e) : PrintT(<<"REJECT", tid, l, c>>)})
         /\ l' = l + 1 /\ UNCHANGED tid
TSpec == TInit /\ [][TStep]_tvars
===============================================================================
