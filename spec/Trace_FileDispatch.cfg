SPECIFICATION TSpec
