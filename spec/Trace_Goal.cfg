SPECIFICATION TSpec
