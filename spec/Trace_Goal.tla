------------------------------- MODULE Trace_Goal -------------------------------
(* Trace validation for C08: every recorded GoalRegion.is_reached /                *)
(* PlanningProblem.goal_reached call of the real code is compared with Reached /   *)
(* GoalReachedV / IndexOk of Goal.tla.                                             *)
(*   {op: "is_reached",   goal, state, res: "T" | "F" | "exc:<Type>", sig}         *)
(*   {op: "goal_reached", goal, traj,  res: "T" | "F" | "exc:<Type>", idx, sig}    *)
(*   {op: "moved_is_reached" / "moved_goal_reached", ..., mv: [t, q], via, warm}   *)
EXTENDS Goal, IOUtils
Traces == ndJsonDeserialize(IOEnv.TRACE_FILE)

VARIABLES tid, l, err
tvars == <<tid, l, err>>

ReachedClause(goal, st) == LET d == Decider(goal, st) IN IF d = "" THEN "C08.Reached" ELSE "C08.Reached/" \o d

Clause(e) ==
  CASE e.op = "is_reached" ->
         IF ~Admissible(e.goal, e.state) THEN "driver/inadmissible-input"
         ELSE IF e.res \notin {"T", "F"} THEN "C08.Total"                      \* the check never fails for admissible inputs
         ELSE LET x == Reached(e.goal, e.state) IN
              IF x # "EITHER" /\ e.res # x THEN ReachedClause(e.goal, e.state) ELSE ""
    [] e.op = "goal_reached" ->
         IF \E i \in DOMAIN e.traj : ~Admissible(e.goal, e.traj[i]) THEN "driver/inadmissible-input"
         ELSE IF e.res \notin {"T", "F"} THEN "C08.Total"
         ELSE LET x == GoalReachedV(e.goal, e.traj) IN
              IF x # "EITHER" /\ e.res # x THEN "C08.GoalReached/verdict"
              ELSE IF e.res = "T" /\ ~IndexOk(e.goal, e.traj, e.idx) THEN "C08.GoalReached/index"
              ELSE ""
    (* moved goal: the region was moved by e.mv through GoalRegion / PlanningProblem(Set).translate_rotate (e.via), after *)
    (* a first query (e.warm = 1) or without one; e.goal is the goal as BUILT, the expectation is Reached on the MOVED goal *)
    [] e.op = "moved_is_reached" ->
         IF ~Admissible(e.goal, e.state) \/ ~AdmMove(e.mv) THEN "driver/inadmissible-input"
         ELSE IF e.res \notin {"T", "F"} THEN "C08.Total/moved"
         ELSE LET x == MovedReached(e.goal, e.mv, e.state) IN
              IF x # "EITHER" /\ e.res # x THEN "C08.Reached/moved" ELSE ""
    [] e.op = "moved_goal_reached" ->
         IF (\E i \in DOMAIN e.traj : ~Admissible(e.goal, e.traj[i])) \/ ~AdmMove(e.mv) THEN "driver/inadmissible-input"
         ELSE IF e.res \notin {"T", "F"} THEN "C08.Total/moved"
         ELSE LET x == MovedGoalReachedV(e.goal, e.mv, e.traj) IN
              IF x # "EITHER" /\ e.res # x THEN "C08.GoalReached/moved-verdict"
              ELSE IF e.res = "T" /\ ~MovedIndexOk(e.goal, e.mv, e.traj, e.idx) THEN "C08.GoalReached/moved-index"
              ELSE ""
    (* goal read from a file (e.fmt); then e.hist = the scenario ("scn") / planning-problem-set ("pps") motions by e.mv *)
    [] e.op = "file_is_reached" ->
         IF ~Admissible(e.goal, e.state) \/ ~AdmMove(e.mv) \/ ~AdmHist(e.hist) THEN "driver/inadmissible-input"
         ELSE IF e.res \notin {"T", "F"} THEN "C08.Total/file"
         ELSE LET x == FileReached(e.goal, e.mv, e.hist, e.state) IN
              IF x # "EITHER" /\ e.res # x THEN "C08.Reached/file" ELSE ""
    [] e.op = "file_goal_reached" ->
         IF (\E i \in DOMAIN e.traj : ~Admissible(e.goal, e.traj[i])) \/ ~AdmMove(e.mv) \/ ~AdmHist(e.hist)
         THEN "driver/inadmissible-input"
         ELSE IF e.res \notin {"T", "F"} THEN "C08.Total/file"
         ELSE LET x == FileGoalReachedV(e.goal, e.mv, e.hist, e.traj) IN
              IF x # "EITHER" /\ e.res # x THEN "C08.GoalReached/file-verdict"
              ELSE IF e.res = "T" /\ ~FileIndexOk(e.goal, e.mv, e.hist, e.traj, e.idx) THEN "C08.GoalReached/file-index"
              ELSE ""
    [] OTHER -> "machinery/unknown-op"

TInit == tid \in 1..Len(Traces) /\ l = 1 /\ err = 0
TStep == /\ l <= Len(Traces[tid].ev)
         /\ LET e == Traces[tid].ev[l]
                c == Clause(e)
            IN err' = IF c = "" THEN err ELSE IF PrintT(<<"REJECT", tid, l, c>>) THEN err + 1 ELSE err
         /\ l' = l + 1 /\ UNCHANGED tid
TSpec == TInit /\ [][TStep]_tvars
=================================================================================
