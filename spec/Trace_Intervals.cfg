SPECIFICATION TSpec
CONSTANTS
  K = 8
  Turn = 24
  ThMax = 36
