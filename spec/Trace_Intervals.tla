----------------------------- MODULE Trace_Intervals -----------------------------
(* Trace validation for C16: every recorded call of the real Interval /             *)
(* AngleInterval must return what the closed-set semantics of Intervals.tla demand. *)
(* Events carry grid indices only:                                                  *)
(*   plain end points / arguments: numerators of quarters (s, e, js, je, x);        *)
(*   results of plain operations: res \in {"ok", "None", "offgrid", "exc:<Type>"}    *)
(*     with rs, re in fine units (1/200);                                           *)
(*   angles: multiples of pi/12 (a, len, ja, jlen, th, x, rs, re);                  *)
(*   xgrid / thgrid = 1: the value is the grid point; 0: strictly inside the cell   *)
(*     (v, v+1) (arbitrary floats and ints, classified by the driver);              *)
(*   boolean results: "T" / "F" / "exc:<Type>".                                     *)
(* Events recorded after the bounds of an object were changed through the public    *)
(* setters (set_start / set_end / angle_set_start / angle_set_end events) carry the *)
(* NEW bounds and the sig suffix "/after-set": the same clauses apply - the object  *)
(* must behave as a freshly constructed interval with those bounds.                 *)
EXTENDS Intervals, IOUtils
Traces == ndJsonDeserialize(IOEnv.TRACE_FILE)

VARIABLES tid, l, err
tvars == <<tid, l, err>>

Total(e) == "C16.Total/" \o e.op                       \* an exception on admissible arguments

(* boolean query against a three-valued expectation *)
BoolClause(e, exp, name) ==
  IF e.res \notin {"T", "F"} THEN Total(e)
  ELSE IF exp # "EITHER" /\ e.res # exp THEN name ELSE ""

(* interval-valued operation on plain intervals: exact end points in fine units *)
IvClause(e, exp, name) ==
  IF e.res \notin {"ok", "None", "offgrid"} THEN Total(e)
  ELSE IF e.res # exp.res THEN name
  ELSE IF exp.res = "ok" /\ (e.rs # exp.s \/ e.re # exp.e \/ e.rs > e.re) THEN name ELSE ""

(* a construction / end point assignment: rejected iff it would give start > end *)
ConstructClause(e, exp) ==
  IF exp.res = "reject"
  THEN IF e.res \in {"ok", "None", "offgrid"} THEN "C16.RejectInverted" ELSE ""
  ELSE IvClause(e, exp, "C16.Construct")

(* interval-valued operation on angle intervals: any representation of the expected set, start <= end *)
AngleIvClause(e, A, x, name) ==
  IF e.res \notin {"ok", "offgrid"} THEN Total(e)
  ELSE IF e.res = "offgrid" \/ e.rs > e.re \/ ~AShiftOK(A, x, [a |-> e.rs, len |-> e.re - e.rs]) THEN name ELSE ""

(* end point assignment on an angle interval inside the domain: rejected iff inverted, else the object reports exactly *)
(* the new bounds x..y (its stored end points are the floats passed in, so grid indices must match, not only modulo 2 pi) *)
AngleSetClause(e, x, y, exp) ==
  IF ~InDomain([a |-> e.a, len |-> e.len]) \/ ~AngleSetAdmissible(x, y) THEN "driver/angle-set-inadmissible"
  ELSE IF exp.res = "reject" THEN (IF e.res \in {"ok", "offgrid"} THEN "C16.RejectInverted" ELSE "")
  ELSE IF e.res \notin {"ok", "offgrid"} THEN Total(e)
  ELSE IF e.res = "offgrid" \/ e.rs # exp.a \/ e.re # exp.a + exp.len THEN "C16.Construct" ELSE ""

PI(e) == [s |-> e.s, e |-> e.e]
PJ(e) == [s |-> e.js, e |-> e.je]
AI(e) == [a |-> e.a, len |-> e.len]
AJ(e) == [a |-> e.ja, len |-> e.jlen]
Sc(e) == [n |-> e.n, d |-> e.d]

Clause(e) ==
  CASE e.op = "contains"          -> BoolClause(e, ExpContains(PI(e), Half(e.x, e.xgrid)), "C16.Contains")
    [] e.op = "contains_interval" -> BoolClause(e, ExpContainsInterval(PI(e), PJ(e)), "C16.ContainsInterval")
    [] e.op = "overlaps"          -> BoolClause(e, ExpOverlaps(PI(e), PJ(e)), "C16.Overlaps")
    [] e.op = "intersection"      -> IvClause(e, ExpIntersection(PI(e), PJ(e)), "C16.Intersection")
    [] e.op = "add"               -> IvClause(e, ExpAdd(PI(e), e.x), "C16.Shift")
    [] e.op = "sub"               -> IvClause(e, ExpSub(PI(e), e.x), "C16.Shift")
    [] e.op = "mul"               -> IvClause(e, ExpMul(PI(e), Sc(e)), "C16.Mul")
    [] e.op = "div"               -> IF e.n = 0 THEN "driver/div-by-zero" ELSE IvClause(e, ExpDiv(PI(e), Sc(e)), "C16.Div")
    [] e.op = "round"             -> IF e.digits \notin Rounds THEN "driver/round-digits"     \* digits: "None", "0", "1", "2"
                                     ELSE IvClause(e, ExpRound(PI(e), e.digits), "C16.Round")
    [] e.op = "construct"         -> ConstructClause(e, ExpConstruct(e.s, e.e))
    [] e.op = "set_start"         -> ConstructClause(e, ExpSetStart(PI(e), e.x))         \* I.start = x on [s, e]
    [] e.op = "set_end"           -> ConstructClause(e, ExpSetEnd(PI(e), e.x))           \* I.end = x on [s, e]
    [] e.op = "angle_set_start"   -> AngleSetClause(e, e.x, e.a + e.len, ExpAngleSetStart(AI(e), e.x))
    [] e.op = "angle_set_end"     -> AngleSetClause(e, e.a, e.x, ExpAngleSetEnd(AI(e), e.x))
    [] e.op = "angle_contains"    -> BoolClause(e, ExpAngleContains(AI(e), Half(e.th, e.thgrid)), "C16.AngleContains")
    [] e.op = "angle_contains_interval" -> BoolClause(e, ExpAngleContainsInterval(AI(e), AJ(e)), "C16.ContainsInterval")
    [] e.op = "angle_overlaps"    -> BoolClause(e, ExpAngleOverlaps(AI(e), AJ(e)), "C16.Overlaps")
    [] e.op = "angle_add"         -> AngleIvClause(e, AI(e), e.x, "C16.Shift")
    [] e.op = "angle_sub"         -> AngleIvClause(e, AI(e), -e.x, "C16.Shift")
    [] e.op = "angle_construct"   ->                     \* AngleInterval(a, b), b - a < full turn
         IF e.b < e.a THEN (IF e.res \in {"ok", "offgrid"} THEN "C16.RejectInverted" ELSE "")
         ELSE IF e.b - e.a >= Turn THEN "driver/angle-length"
         ELSE AngleIvClause(e, [a |-> e.a, len |-> e.b - e.a], 0, "C16.Construct")
    [] OTHER -> "machinery/unknown-op"

TInit == tid \in 1..Len(Traces) /\ l = 1 /\ err = 0
TStep == /\ l <= Len(Traces[tid].ev)
         /\ LET e == Traces[tid].ev[l]
                c == Clause(e)
            IN err' = IF c = "" THEN err ELSE IF PrintT(<<"REJECT", tid, l, c>>) THEN err + 1 ELSE err
         /\ l' = l + 1 /\ UNCHANGED tid
TSpec == TInit /\ [][TStep]_tvars
=================================================================================
