SPECIFICATION TSpec
