--------------------------- MODULE Trace_LaneletGeom ---------------------------
(* Trace validation for C20: every recorded return value of Lanelet.distance,           *)
(* interpolate_position, merge_lanelets, find_lanelet_successors_in_range and           *)
(* find_lanelet_predecessors_in_range is judged with the operators of LaneletGeom.tla.  *)
(* Events (see crv/props/c20.py):                                                       *)
(*  distance    c, den, res = <<k, exact>> per vertex (value k/den, exact = within 1e-9) *)
(*  interpolate c, l, r, sn, sd, den, res = << <<kx, ky, exact>> center, right, left >>   *)
(*  merge       a, b (lanes [l, c, r]), res = [l, c, r (integer vertices), ex], rlen      *)
(*              (the lanelet a merge returns is a lanelet: the driver follows each merge  *)
(*              with distance / interpolate events on it, judged against its own vertices)*)
(*  succ_routes / pred_routes   succ (successor lists by id), len, start, range, res,     *)
(*              caller (the direct list of the object the search was called on), ck (own   *)
(*              network object / original edited after the network copied it / foreign     *)
(*              lanelet with a colliding id / merged lanelet)                              *)
(*  mutate / inner_distance   steps of a history (crv/props/c20.py _exec_hist): accepted;  *)
(*              the distance / interpolate events that follow carry the lanelet's CURRENT  *)
(*              public vertices, so the expected values are those of the current polylines  *)
(* All geometry is logged in the ABSTRACT frame of the case (pre-image under the case's      *)
(* similarity p + qi, lengths in units of sqrt(U), see LaneletGeom (2c)); a float is logged   *)
(* as grid index + precision class (2: within 1e-9, 1: within 1e-5, 0: off); dt = array      *)
(* representation handed to the library.  Route events carry U (lengths len[i] * sqrt(U)).   *)
(* st = "ok" | "timeout" | "exc:<Type>".                                                 *)
EXTENDS LaneletGeom, IOUtils
Traces == ndJsonDeserialize(IOEnv.TRACE_FILE)

VARIABLES tid, l, err
tvars == <<tid, l, err>>

(* every event carries dt (array representation) -> the precision class its floats must reach *)
Prec(e) == IF "dt" \in DOMAIN e THEN PrecOf(e.dt) ELSE 2
GOf(s) == [n \in 1..Len(s) |-> {s[n][k] : k \in 1..Len(s[n])}]
(* got = <<kx, ky, exact>>, exp = exact rational point, D = grid denominator chosen by the driver *)
PtClause(got, exp, D, need) ==
  IF ~(OnGrid(exp[1], D) /\ OnGrid(exp[2], D)) THEN "grid"
  ELSE IF got[3] >= need /\ GridEq(got[1], exp[1], D) /\ GridEq(got[2], exp[2], D) THEN "" ELSE "bad"

DistanceClause(e) ==
  IF ~WellFormed(e.c) \/ e.den < 1 THEN "driver/malformed-polyline"
  ELSE IF e.st # "ok" \/ Len(e.res) = 0 THEN "C20.Total/distance"
  ELSE IF e.res[1][1] # 0 \/ e.res[1][2] < Prec(e) THEN "C20.CumStart"
  ELSE IF \E i \in 1..Len(e.res) - 1 : e.res[i][1] > e.res[i + 1][1] THEN "C20.CumMonotone"
  ELSE IF Len(e.res) # Len(e.c) \/ Last(e.res)[1] # Length(e.c) * e.den \/ Last(e.res)[2] < Prec(e) THEN "C20.CumEnd"
  \* "the cumulative center-line distance": entry i is the arc length of the center line up to vertex i
  ELSE IF \E i \in 1..Len(e.c) : e.res[i][1] # Cum(e.c)[i] * e.den \/ e.res[i][2] < Prec(e) THEN "C20.CumValues"
  ELSE ""

InterpolateClause(e) ==
  IF ~WellFormed(e.c) \/ Len(e.l) # Len(e.c) \/ Len(e.r) # Len(e.c) \/ e.sd < 1 \/ e.den < 1
     THEN "driver/malformed-polyline"
  ELSE IF ~InRange(e.c, e.sn, e.sd) THEN "driver/arc-length-out-of-range"
  ELSE IF e.st # "ok" THEN "C20.Total/interpolate"
  ELSE LET pc == PtClause(e.res[1], PointAt(e.c, e.sn, e.sd), e.den, Prec(e))
           pr == PtClause(e.res[2], BoundaryAt(e.c, e.r, e.sn, e.sd), e.den, Prec(e))
           pl == PtClause(e.res[3], BoundaryAt(e.c, e.l, e.sn, e.sd), e.den, Prec(e))
       IN IF "grid" \in {pc, pr, pl} THEN "driver/grid"
          ELSE IF pc # "" THEN "C20.Interpolate/center"
          ELSE IF pr # "" \/ pl # "" THEN "C20.Interpolate/boundary"
          ELSE ""

MergeClause(e) ==
  IF ~(WellFormed(e.a.c) /\ WellFormed(e.b.c)) THEN "driver/malformed-polyline"
  ELSE IF ~Joint(e.a, e.b) THEN "driver/not-joint"
  ELSE IF e.st # "ok" THEN "C20.Total/merge"
  ELSE LET m == Merge(e.a, e.b)
       IN IF e.res.ex < Prec(e) \/ e.res.l # m.l \/ e.res.c # m.c \/ e.res.r # m.r THEN "C20.Merge/vertices"
          ELSE IF e.rlen[1] # Length(e.a.c) + Length(e.b.c) \/ e.rlen[2] < Prec(e) THEN "C20.Merge/length"
          ELSE ""

RoutesOk(e) == /\ Len(e.len) = Len(e.succ) /\ e.start >= 1
               /\ \A k \in 1..Len(e.caller) : e.caller[k] \in 1..Len(e.succ) \ {e.start}
               /\ e.ck \in {"own", "edited-add", "edited-remove", "edited-assign", "foreign", "merged"}
               /\ \A n \in 1..Len(e.succ) : \A k \in 1..Len(e.succ[n]) : e.succ[n][k] \in 1..Len(e.succ) \ {n}
               /\ \A n \in 1..Len(e.len) : e.len[n] >= 1
               /\ e.U >= 1 /\ e.range >= 0
RoutesClause2(e) ==
  IF ~RoutesOk(e) THEN "driver/malformed-graph"
  ELSE IF e.st = "timeout" THEN "C20.Terminates"
  ELSE IF e.st # "ok" THEN "C20.Total/" \o e.op
  ELSE LET g == IF e.op = "succ_routes" THEN GOf(e.succ) ELSE Rev(GOf(e.succ))
           \* caller = the CALLER's current direct successor (predecessor) list, ck = who the caller is
           d == {e.caller[k] : k \in 1..Len(e.caller)}
           c == RoutesFrom(g, d, e.len, e.start, e.range, e.res, e.U, e.ck # "foreign")
       IN IF c = "" THEN "" ELSE "C20.Routes/" \o c

Clause(e) ==
  CASE e.op = "distance"    -> DistanceClause(e)
    [] e.op = "interpolate" -> InterpolateClause(e)
    [] e.op = "merge"       -> MergeClause(e)
    [] e.op \in {"succ_routes", "pred_routes"} -> RoutesClause2(e)
    \* a mutation step of a history (its logged post-vertices are what the following queries are judged against) and
    \* inner_distance (not named by the statement): recorded, never judged
    [] e.op \in {"mutate", "inner_distance"} -> ""
    [] OTHER -> "machinery/unknown-op"

TInit == tid \in 1..Len(Traces) /\ l = 1 /\ err = 0
TStep == /\ l <= Len(Traces[tid].ev)
         /\ LET e == Traces[tid].ev[l]
                c == Clause(e)
            IN err' = IF c = "" THEN err ELSE IF PrintT(<<"REJECT", tid, l, c>>) THEN err + 1 ELSE err
         /\ l' = l + 1 /\ UNCHANGED tid
TSpec == TInit /\ [][TStep]_tvars
=================================================================================
