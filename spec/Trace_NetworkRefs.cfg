SPECIFICATION TSpec
CONSTANTS
  NL = 4
