---------------------------- MODULE Trace_NetworkRefs ----------------------------
(* Trace validation for C10: every removal / cut-out executed on a real LaneletNetwork or        *)
(* Scenario is logged with the projected id-valued attributes before and after the call and is   *)
(* checked against the contract clause of NetworkRefs.tla.                                       *)
EXTENDS NetworkRefs, Json, IOUtils
Traces == ndJsonDeserialize(IOEnv.TRACE_FILE)

VARIABLES tid, l, err
tvars == <<tid, l, err>>

SetF(a)  == [i \in Lan |-> Range(a[i])]
NumF(a)  == [i \in Lan |-> a[i]]
IncOf(q) == [il |-> Range(q[1]), sr |-> Range(q[2]), ss |-> Range(q[3]), sl |-> Range(q[4])]
FromLog(r) ==
    [L |-> Range(r.L), pred |-> SetF(r.pred), succ |-> SetF(r.succ), al |-> NumF(r.al), ar |-> NumF(r.ar),
     ald |-> NumF(r.ald), ard |-> NumF(r.ard), sg |-> SetF(r.sg), lt |-> SetF(r.lt), stp |-> NumF(r.stp),
     ssg |-> SetF(r.ssg), slt |-> SetF(r.slt), S |-> Range(r.S), T |-> Range(r.T), X |-> Range(r.X), I |-> Range(r.I),
     inc |-> [k \in Inc |-> IF k \in Range(r.I) THEN IncOf(r.inc[k - 31]) ELSE NoInc], cr |-> Range(r.cr)]

(* sibling events: after a cut-out the SOURCE network and the cut-out are two networks; a later removal on one of them   *)
(* must leave the other one untouched ("every element not selected for removal is still present with unchanged content") *)
EvClause(e, errs) ==
    IF e.op = "sibling" THEN (IF e.pre # e.post THEN "C10.KeptUnchanged/sibling-network" ELSE "")
    ELSE IF e.res # "ok" THEN "C10.Total/" \o e.op
    ELSE LET n == FromLog(e.pre) IN
         IF ~WellFormed(n) THEN (IF errs > 0 THEN "" ELSE "driver/ill-formed-pre")   \* after a reported violation the rest of the trace is outside the quantifier
         ELSE Clause(n, [op |-> e.op, ids |-> e.ids, ref |-> e.ref], FromLog(e.post))

TInit == tid \in 1..Len(Traces) /\ l = 1 /\ err = 0
TStep == /\ l <= Len(Traces[tid].ev)
         /\ LET e == Traces[tid].ev[l]
                c == EvClause(e, err)
            IN err' = IF c = "" THEN err ELSE IF PrintT(<<"REJECT", tid, l, c>>) THEN err + 1 ELSE err
         /\ l' = l + 1 /\ UNCHANGED tid
TSpec == TInit /\ [][TStep]_tvars
===================================================================================
