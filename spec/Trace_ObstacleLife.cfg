SPECIFICATION TSpec
