--------------------------- MODULE Trace_ObstacleLife ---------------------------
(* Trace validation for X08: every call recorded on a real StaticObstacle / DynamicObstacle /       *)
(* PhantomObstacle / EnvironmentObstacle / TrajectoryPrediction / Scenario (arguments, result, the   *)
(* observable snapshot after the call) is checked against the contract of ObstacleLife.tla.  Trace   *)
(* steps are total: a rejected event is reported with the name of the failing clause and the          *)
(* specification state is re-synchronised to the logged snapshot.                                     *)
EXTENDS ObstacleLife, Json, IOUtils
Traces == ndJsonDeserialize(IOEnv.TRACE_FILE)

VARIABLES tid, l, st, err
tvars == <<tid, l, st, err>>

TInit == tid \in 1..Len(Traces) /\ l = 1 /\ st = Empty /\ err = 0
TStep == /\ l <= Len(Traces[tid].ev)
         /\ LET e == Traces[tid].ev[l]
                c == Clause(st, e)
            IN /\ err' = IF c = "" THEN err ELSE IF PrintT(<<"REJECT", tid, l, c>>) THEN err + 1 ELSE err
               /\ st' = IF e.op \in DOps \cup SOps THEN Post(st, e) ELSE st
         /\ l' = l + 1 /\ UNCHANGED tid
TSpec == TInit /\ [][TStep]_tvars
=================================================================================
