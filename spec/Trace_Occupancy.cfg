SPECIFICATION TSpec
