---------------------------- MODULE Trace_Occupancy ----------------------------
(* Trace validation for C04.  Every event carries the obstacle descriptor(s) it was executed on, the     *)
(* query and what the real code returned (projected onto the doubled integer lattice); the expected      *)
(* answer is recomputed here from Occupancy.tla.                                                          *)
(*   occupancy res: [k |-> "None"] | [k |-> "rect"/"poly", vs, exact] | [k |-> "disc", c, r2, exact]      *)
(*                  | [k |-> "group", parts, exact] | [k |-> "exc", name]                                 *)
(*   state res:     [k |-> "None"] | [k |-> "state", ts, x2, y2, q, exact] | [k |-> "exc", name]          *)
(*   uncertain states: obs = <<<<x2, y2, o8, flag>>, ...>>, flag = 1 iff the returned region covers the   *)
(*                  shape placed at that obligation pose (decided by shapely in the harness)              *)
(*   history cases: events recorded AFTER the one modification carry it as field m; the expected answers  *)
(*                  are those of Modify(o, m) / ModifyS(S, m) - the contract holds for the current data   *)
EXTENDS Occupancy, Json, IOUtils
Traces == ndJsonDeserialize(IOEnv.TRACE_FILE)

VARIABLES tid, l, err
tvars == <<tid, l, err>>

EffO(e) == IF "m" \in DOMAIN e /\ Targets(e.o, e.m) THEN Modify(e.o, e.m) ELSE e.o
EffS(e) == IF "m" \in DOMAIN e THEN ModifyS(e.S, e.m) ELSE e.S
Pt(p) == <<p[1], p[2]>>
PtSet(vs) == {Pt(vs[i]) : i \in DOMAIN vs}
SameRegion(r, x) ==            \* r logged, x = Placed(...)
    IF r.k \notin {"rect", "poly", "disc", "group"} THEN FALSE
    ELSE CASE x.k = "poly"  -> r.k \in {"rect", "poly"} /\ r.exact = 1 /\ PtSet(r.vs) = x.vs
           [] x.k = "disc"  -> r.k = "disc" /\ r.exact = 1 /\ Pt(r.c) = x.c /\ r.r2 = x.r2
           [] x.k = "group" -> r.k = "group" /\ r.exact = 1 /\ Len(r.parts) = Cardinality(x.parts)
                               /\ {PtSet(r.parts[i]) : i \in DOMAIN r.parts} = x.parts
           [] OTHER -> FALSE
StateMatches(m, s) ==          \* m logged, s = state record of the descriptor
    /\ m.ts = s.t
    /\ (s.unc # "none" \/ (m.exact = 1 /\ m.x2 = 2 * s.x /\ m.y2 = 2 * s.y /\ (m.q = -1 \/ m.q = PoseOf(s)[3])))

WrongRegionClause(o, t, r) ==  \* the region is there but it is not the expected one: say which part of the statement fails
    LET src == Source(o, t)  s == SrcState(o, t)
    IN CASE src.k = "Static" -> "C04.Static"
         [] src.k = "SetOcc" -> "C04.SetBased"
         [] src.k = "Env"    -> "C04.Source/environment"
         [] OTHER ->
              IF s.kind \in PMKinds /\ \E q \in 0..3 : SameRegion(r, Placed(PredShape(o), <<s.x, s.y, q>>)) THEN "C04.PointMassHeading"
              ELSE IF \E s2 \in AllStates(o) \ {s} : s2.unc = "none" /\ SameRegion(r, Placed(PredShape(o), PoseOf(s2)))
                   THEN "C04.Source/" \o (IF src.k = "Initial" THEN "initial" ELSE "trajectory")     \* paired with another state
                   ELSE "C04.Placed"

ClauseOcc(e) ==
    LET o == EffO(e)  t == e.t  r == e.res
    IN IF r.k = "exc" THEN (IF "construct" \in DOMAIN e /\ Overlaps(o) THEN ""        \* refusing an overlapping prediction is fine
                            ELSE "C04.Total/occupancy_at_time")
       ELSE IF Source(o, t).k = "None" THEN (IF r.k = "None" THEN "" ELSE "C04.Horizon/non-None-outside")
       ELSE IF r.k = "None" THEN "C04.Horizon/None-inside"
       ELSE IF IsUncertain(o, t) THEN
            (IF {<<p[1], p[2], p[3]>> : p \in Range(e.obs)} # Obligations(SrcState(o, t)) THEN "driver/obligations"
             ELSE IF \E p \in Range(e.obs) : p[4] # 1 THEN "C04.Encloses" ELSE "")
       ELSE IF \E x \in AdmOccs(o, t) : SameRegion(r, x) THEN ""                      \* any of the stored occupancies covering t
       ELSE WrongRegionClause(o, t, r)

ClauseState(e) ==
    LET o == EffO(e)  t == e.t  r == e.res  x == StateAt(o, t)
    IN IF r.k = "exc" THEN "C04.Total/state_at_time"
       ELSE IF x.k = "None" THEN (IF r.k = "None" THEN "" ELSE "C04.Horizon/state-outside")
       ELSE IF r.k = "None" THEN "C04.Horizon/no-state-inside"
       ELSE IF StateMatches(r, x) THEN "" ELSE "C04.StateAt"

ClauseScenario(e) ==
    IF e.res.k = "exc" THEN "C04.Total/" \o e.op
    ELSE LET ES == EffS(e) IN
         CASE e.op = "occupancies_at_time_step" ->
                (LET P == {p \in Range(ES) : RoleOK(p, e.role) /\ AdmOccs(p, e.t) # {NoneV}}    \* obstacles that have an occupancy at t
                     got == e.res.occs
                     perOK ==      \* where an obstacle has several admissible answers: the very answers the obstacles gave (field per)
                         "per" \notin DOMAIN e \/
                         {NormRegion(got[i]) : i \in DOMAIN got} =
                             {NormRegion(e.per[j].occ) : j \in {k \in DOMAIN e.per : e.per[k].occ.k # "None" /\
                                                                     \E p \in Range(ES) : p.id = e.per[k].id /\ RoleOK(p, e.role)}}
                 IN IF /\ Len(got) = Cardinality(P)
                       /\ \A i \in DOMAIN got : \E p \in P : \E x \in AdmOccs(p, e.t) : SameRegion(got[i], x)
                       /\ \A p \in P : \E i \in DOMAIN got : \E x \in AdmOccs(p, e.t) : SameRegion(got[i], x)
                       /\ perOK
                    THEN "" ELSE "C04.Scenario/occupancies_at_time_step")
           [] e.op = "obstacle_states_at_time_step" ->
                (LET want == StatesAt(ES, e.t)  got == e.res.states
                 IN IF /\ Len(got) = Cardinality(want)
                       /\ {got[i].id : i \in DOMAIN got} = {p[1] : p \in want}
                       /\ \A i \in DOMAIN got : \A p \in want : p[1] = got[i].id => StateMatches(got[i], p[2])
                    THEN "" ELSE "C04.Scenario/obstacle_states_at_time_step")
           [] e.op = "obstacles_by_role_and_type" ->
                IF Len(e.res.ids) = Cardinality(Range(e.res.ids)) /\ Range(e.res.ids) = ByRoleType(ES, e.role, e.type)
                THEN "" ELSE "C04.Scenario/obstacles_by_role_and_type"
           [] e.op = "obstacles_by_position_intervals" ->
                IF /\ Len(e.res.ids) = Cardinality(Range(e.res.ids))
                   /\ ByPosition(ES, e.ix, e.iy, Range(e.roles), e.t) \subseteq Range(e.res.ids)
                   /\ Range(e.res.ids) \subseteq ByPositionMay(ES, e.ix, e.iy, Range(e.roles), e.t)
                THEN "" ELSE "C04.Scenario/obstacles_by_position_intervals"

Clause(e) ==
    CASE e.op = "occupancy_at_time" -> ClauseOcc(e)
      [] e.op = "state_at_time"     -> ClauseState(e)
      [] e.op \in {"occupancies_at_time_step", "obstacle_states_at_time_step", "obstacles_by_role_and_type",
                   "obstacles_by_position_intervals"} -> ClauseScenario(e)
      [] OTHER -> "machinery/unknown-op"

TInit == tid \in 1..Len(Traces) /\ l = 1 /\ err = 0
TStep == /\ l <= Len(Traces[tid].ev)
         /\ LET e == Traces[tid].ev[l]
                c == Clause(e)
            IN err' = IF c = "" THEN err ELSE IF PrintT(<<"REJECT", tid, l, c>>) THEN err + 1 ELSE err
         /\ l' = l + 1 /\ UNCHANGED tid
TSpec == TInit /\ [][TStep]_tvars
=================================================================================
