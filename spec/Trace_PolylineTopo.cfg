SPECIFICATION TSpec
