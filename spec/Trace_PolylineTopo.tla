--------------------------- MODULE Trace_PolylineTopo ---------------------------
(* Trace validation for X02: every recorded return value of the polyline utilities and of the      *)
(* lanelet topology helpers is judged with the operators of PolylineTopo.tla.                        *)
(* Events (see crv/props/x02.py); st = "ok" | "exc:<Type>"; integer points <<x, y>>; a rational       *)
(* scalar is <<num, den, exact>>, a rational point <<xn, yn, den, exact>>, a direction <<dx, dy>>:   *)
(*  lengths        p, res (scalars), total (scalar)                                                  *)
(*  orientations   p, res (directions), init (direction)                                             *)
(*  on_polyline    p, pt, res 0/1                                                                    *)
(*  intersections  a, b, res (points); intersections_sym  res, res2 (the two argument orders)        *)
(*  self_intersection p, res 0/1                                                                     *)
(*  compare_eq     a, b, sc, thn, thd, res "T"/"F"                                                   *)
(*  concatenate    a, b, res (integer points), ex; concat_total a, b, ta, tb, tc (scalars)           *)
(*  resample_number p, n, res (points); resample_distance p, dn, dd, res (points)                    *)
(*  equalize       long, short, res (points); curvature_straight p, res (1 = zero within 1e-9)       *)
(*  link           which, x, pre_p, pre_s, post_p, post_s                                            *)
(*  find           kind, ids, q, res <<found, id, same>>;  refs  kind, refs, q, res, same            *)
(*  inc_map        inters, res;  proximity  lanes, p, r, res;  orientation_at  c, p, res, inr        *)
EXTENDS PolylineTopo, IOUtils
Traces == ndJsonDeserialize(IOEnv.TRACE_FILE)

VARIABLES tid, l, err
tvars == <<tid, l, err>>

ScalEq(r, n) == r[3] = 1 /\ r[1] = n * r[2]                \* implementation scalar r equals the integer n
Ok(e) == e.st = "ok"
AllExact(res) == \A k \in DOMAIN res : res[k][4] = 1

LengthsClause(e) ==
  IF ~IntPoly(e.p) THEN "driver/malformed-polyline"
  ELSE IF ~Ok(e) THEN "X02.Lengths/raises"
  ELSE IF Len(e.res) # Len(e.p) THEN "X02.Lengths/count"
  ELSE IF ~ScalEq(e.res[1], 0) THEN "X02.Lengths/start"
  ELSE IF \E i \in 1..Len(e.res) - 1 : e.res[i][1] * e.res[i + 1][2] > e.res[i + 1][1] * e.res[i][2] THEN "X02.Lengths/monotone"
  ELSE IF \E i \in 1..Len(e.p) : ~ScalEq(e.res[i], Cum(e.p)[i]) THEN "X02.Lengths/values"
  ELSE IF ~ScalEq(e.total, Length(e.p)) THEN "X02.TotalLength"
  ELSE ""

OrientClause(e) ==
  IF Len(e.p) < 2 THEN "driver/malformed-polyline"
  ELSE IF ~Ok(e) THEN "X02.Orientations/raises"
  ELSE LET c == OrientationsClause(e.p, e.res) IN
       IF c # "" THEN "X02.Orientations/" \o c
       ELSE IF e.init # e.res[1] THEN "X02.InitialOrientation"
       ELSE ""

OnPolyClause(e) ==
  IF Len(e.p) < 2 THEN "driver/malformed-polyline"
  ELSE IF ~Ok(e) THEN "X02.PointOn/raises"
  ELSE IF (e.res = 1) # OnPoly(e.p, e.pt) THEN "X02.PointOn" ELSE ""

InterClause(e) ==
  IF ~(Proper(e.a) /\ Proper(e.b)) THEN "driver/malformed-polyline"
  ELSE IF ~Ok(e) THEN "X02.Intersections/raises"
  ELSE LET c == IntersectionsClause(e.a, e.b, e.res) IN IF c = "" THEN "" ELSE "X02.Intersections/" \o c

SelfClause(e) ==
  IF ~IntPoly(e.p) THEN "driver/malformed-polyline"
  ELSE IF ~Ok(e) THEN "X02.SelfIntersection/raises"
  ELSE LET v == SelfX(e.p) IN
       IF v = "EITHER" \/ (v = "T") = (e.res = 1) THEN "" ELSE "X02.SelfIntersection"

CompareClause(e) ==
  LET v == EqVerdict(e.a, e.b, e.sc, e.thn, e.thd) IN
  IF ~Ok(e) THEN (IF Len(e.a) # Len(e.b) THEN "X02.CompareEq/length-mismatch-raises" ELSE "X02.CompareEq/raises")
  ELSE IF v = "EITHER" \/ v = e.res THEN "" ELSE "X02.CompareEq"

ConcatClause(e) ==
  IF ~Ok(e) THEN "X02.Concatenate/raises"
  ELSE IF e.ex # 1 \/ e.res # Concat(e.a, e.b) THEN "X02.Concatenate" ELSE ""
ConcatTotalClause(e) ==
  IF ~(IntPoly(e.a) /\ IntPoly(e.b) /\ HasIntLen(Last(e.a), e.b[1])) THEN "driver/malformed-polyline"
  ELSE IF ~Ok(e) THEN "X02.Concatenate/length-raises"
  ELSE IF ~(ScalEq(e.ta, Length(e.a)) /\ ScalEq(e.tb, Length(e.b))) THEN "X02.TotalLength"
  ELSE IF ~ScalEq(e.tc, Length(e.a) + IntLen(Last(e.a), e.b[1]) + Length(e.b)) THEN "X02.Concatenate/additive"
  ELSE ""

ResampleNumberClause(e) ==
  IF ~Proper(e.p) \/ e.n < 2 THEN "driver/malformed-polyline"
  ELSE IF ~Ok(e) THEN "X02.ResampleNumber/raises"
  ELSE IF Len(e.res) # e.n THEN "X02.ResampleNumber/count"
  ELSE IF ~AllExact(e.res) THEN "X02.ResampleNumber/inexact"
  ELSE IF ~PtEq(e.res[1], IntPt(e.p[1])) \/ ~PtEq(Last(e.res), IntPt(Last(e.p))) THEN "X02.ResampleNumber/ends"
  ELSE IF \E j \in 1..e.n : ~OnPolyR(e.p, e.res[j]) THEN "X02.ResampleNumber/on-polyline"
  ELSE IF \E j \in 1..e.n : ~PtEq(e.res[j], ResampleNumber(e.p, e.n)[j]) THEN "X02.ResampleNumber/spacing"
  ELSE ""

ResampleDistanceClause(e) ==
  IF ~Proper(e.p) \/ e.dn < 1 \/ e.dd < 1 THEN "driver/malformed-polyline"
  ELSE IF ~Ok(e) THEN "X02.ResampleDistance/raises"
  ELSE IF ~AllExact(e.res) THEN "X02.ResampleDistance/inexact"
  ELSE IF Len(e.res) < 2 \/ ~PtEq(e.res[1], IntPt(e.p[1])) \/ ~PtEq(Last(e.res), IntPt(Last(e.p))) THEN "X02.ResampleDistance/ends"
  ELSE LET R == ResampleDistance(e.p, e.dn, e.dd) IN
       IF e.dn > e.dd * Length(e.p) THEN
            (IF Len(e.res) = Len(R) /\ \A j \in DOMAIN R : PtEq(e.res[j], R[j]) THEN "" ELSE "X02.ResampleDistance/not-resampled")
       ELSE IF \E j \in DOMAIN e.res : ~OnPolyR(e.p, e.res[j]) THEN "X02.ResampleDistance/on-polyline"
       ELSE IF Len(e.res) # Len(R) THEN "X02.ResampleDistance/count"
       ELSE IF \E j \in DOMAIN R : ~PtEq(e.res[j], R[j]) THEN "X02.ResampleDistance/spacing"
       ELSE ""

EqualizeClause2(e) ==
  IF ~(Proper(e.long) /\ Proper(e.short) /\ Len(e.long) > Len(e.short)) THEN "driver/malformed-polyline"
  ELSE IF ~Ok(e) THEN "X02.Equalize/raises"
  ELSE LET c == EqualizeClause(e.long, e.short, e.res) IN IF c = "" THEN "" ELSE "X02.Equalize/" \o c

CurvatureClause(e) ==
  IF ~(Len(e.p) >= 3 /\ Straight(e.p)) THEN "driver/malformed-polyline"
  ELSE IF ~Ok(e) THEN "X02.Curvature/raises"
  ELSE IF Len(e.res) # Len(e.p) THEN "X02.Curvature/count"
  ELSE IF \E i \in DOMAIN e.res : e.res[i] # 1 THEN "X02.Curvature/straight"
  ELSE ""

LinkClause(e) ==
  IF ~Ok(e) THEN "X02.Link/raises"
  ELSE CASE e.which = "add_predecessor" ->
              IF ~AddOK(e.pre_p, e.x, e.post_p) THEN "X02.Link/add" ELSE IF e.post_s # e.pre_s THEN "X02.Link/other-list" ELSE ""
         [] e.which = "remove_predecessor" ->
              IF ~RemoveOK(e.pre_p, e.x, e.post_p) THEN "X02.Link/remove" ELSE IF e.post_s # e.pre_s THEN "X02.Link/other-list" ELSE ""
         [] e.which = "add_successor" ->
              IF ~AddOK(e.pre_s, e.x, e.post_s) THEN "X02.Link/add" ELSE IF e.post_p # e.pre_p THEN "X02.Link/other-list" ELSE ""
         [] e.which = "remove_successor" ->
              IF ~RemoveOK(e.pre_s, e.x, e.post_s) THEN "X02.Link/remove" ELSE IF e.post_p # e.pre_p THEN "X02.Link/other-list" ELSE ""
         [] OTHER -> "driver/unknown-link-op"

FindClause(e) ==
  IF ~Ok(e) THEN "X02.Find/raises"
  ELSE IF e.res # FindRes(Range(e.ids), e.q) THEN "X02.Find/" \o e.kind ELSE ""

RefsClause(e) ==
  IF ~Ok(e) THEN "X02.Refs/raises"
  ELSE IF ~NoDups(e.res) \/ Range(e.res) # RefLanelets(e.refs, e.q) \/ e.same # 1 THEN "X02.Refs/" \o e.kind ELSE ""

IncClause(e) ==
  IF ~Ok(e) THEN "X02.IncMap/raises"
  ELSE LET c == IncMapClause(e.inters, e.res) IN IF c = "" THEN "" ELSE "X02.IncMap/" \o c

ProxClause(e) ==
  IF e.r < 1 THEN "driver/malformed-radius"
  ELSE IF ~Ok(e) THEN "X02.Proximity/raises"
  ELSE LET c == ProximityClause(e.lanes, e.p, e.r, e.res) IN IF c = "" THEN "" ELSE "X02.Proximity/" \o c

OrientAtClause(e) ==
  IF ~Proper(e.c) THEN "driver/malformed-polyline"
  ELSE IF ~InExtent(e.c, e.p) THEN ""                     \* position before the start / behind the end: docstring silent
  ELSE IF ~Ok(e) THEN "X02.OrientationAt/raises"
  ELSE IF e.inr # 1 THEN "X02.OrientationAt/range"         \* "orientation in interval [-pi, pi]"
  ELSE IF ~OrientationAtOK(e.c, e.p, e.res) THEN "X02.OrientationAt" ELSE ""

Clause(e) ==
  CASE e.op = "lengths"            -> LengthsClause(e)
    [] e.op = "orientations"       -> OrientClause(e)
    [] e.op = "on_polyline"        -> OnPolyClause(e)
    [] e.op = "intersections"      -> InterClause(e)
    [] e.op = "intersections_sym"  -> IF SameRatPoints(e.res, e.res2) THEN "" ELSE "X02.Intersections/symmetric"
    [] e.op = "self_intersection"  -> SelfClause(e)
    [] e.op = "compare_eq"         -> CompareClause(e)
    [] e.op = "concatenate"        -> ConcatClause(e)
    [] e.op = "concat_total"       -> ConcatTotalClause(e)
    [] e.op = "resample_number"    -> ResampleNumberClause(e)
    [] e.op = "resample_distance"  -> ResampleDistanceClause(e)
    [] e.op = "equalize"           -> EqualizeClause2(e)
    [] e.op = "curvature_straight" -> CurvatureClause(e)
    [] e.op = "link"               -> LinkClause(e)
    [] e.op = "find"               -> FindClause(e)
    [] e.op = "refs"               -> RefsClause(e)
    [] e.op = "inc_map"            -> IncClause(e)
    [] e.op = "proximity"          -> ProxClause(e)
    [] e.op = "orientation_at"     -> OrientAtClause(e)
    [] OTHER -> "machinery/unknown-op"

TInit == tid \in 1..Len(Traces) /\ l = 1 /\ err = 0
TStep == /\ l <= Len(Traces[tid].ev)
         /\ LET e == Traces[tid].ev[l]
                c == Clause(e)
            IN err' = IF c = "" THEN err ELSE IF PrintT(<<"REJECT", tid, l, c>>) THEN err + 1 ELSE err
         /\ l' = l + 1 /\ UNCHANGED tid
TSpec == TInit /\ [][TStep]_tvars
=================================================================================
