SPECIFICATION TSpec
