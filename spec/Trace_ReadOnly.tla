------------------------------- MODULE Trace_ReadOnly -------------------------------
(* Trace validation for C18: every read-only operation executed on real objects is logged with   *)
(* an id of the structural snapshot before and after, and of the XML export before and after.    *)
EXTENDS ReadOnly, Json, IOUtils
Traces == ndJsonDeserialize(IOEnv.TRACE_FILE)
VARIABLES tid, l, err
tvars == <<tid, l, err>>
Clause(e) ==
    IF e.op \notin Ops THEN "machinery/unknown-op"
    \* an operation that raises is not judged for totality here (C18 is a frame condition): the frame is still checked
    ELSE IF e.before # e.after THEN "C18.Frame/" \o e.op
    ELSE IF e.export_before # e.export_after THEN "C18.Export/" \o e.op
    ELSE ""
TInit == tid \in 1..Len(Traces) /\ l = 1 /\ err = 0
TStep == /\ l <= Len(Traces[tid].ev)
         /\ LET e == Traces[tid].ev[l]  c == Clause(e)
            IN err' = IF c = "" THEN err ELSE IF PrintT(<<"REJECT", tid, l, c>>) THEN err + 1 ELSE err
         /\ l' = l + 1 /\ UNCHANGED tid
TSpec == TInit /\ [][TStep]_tvars
===================================================================================
