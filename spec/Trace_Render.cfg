SPECIFICATION TSpec
CONSTANTS
  TMax = 8
