------------------------------- MODULE Trace_Render -------------------------------
(* Trace validation for C19: every recorded Set on a real MPDrawParams, every drawn-set / *)
(* lanelet observation of a real MPRenderer and every draw / render outcome is checked     *)
(* against the operators of Render.tla.  Events are self-contained (a Set event carries    *)
(* the values of the field at all nodes and the list of everything that changed; a Replace *)
(* event carries what the assigned group was built with / holds and what else changed).     *)
EXTENDS Render, IOUtils
Traces == ndJsonDeserialize(IOEnv.TRACE_FILE)

VARIABLES tid, l, err
tvars == <<tid, l, err>>

SeqSet(s) == {s[i] : i \in DOMAIN s}
ValidDesc(x) == [kind |-> x.kind, t0 |-> x.t0, n |-> x.n] \in Descriptors

Clause(e) ==
  CASE e.op = "set" ->
         IF e.node \notin Nodes \/ e.field \notin AllScalars THEN "driver/unknown-node-or-field"
         ELSE IF e.res # "ok" THEN "C19.Propagate/raised"
         ELSE IF Missed(e.node, e.field, e.v, e.vals) # {} THEN "C19.Propagate/missed"
         ELSE IF Clobbered(e.node, e.field, e.changed) # {} THEN "C19.Propagate/clobbered"
         ELSE ""
    [] e.op = "roundtrip" ->                                                     \* save -> load of a parameter object
         IF e.res # "ok" THEN "C19.Roundtrip/raised"
         ELSE IF RoundtripChanged(e.changed) # {} THEN "C19.Roundtrip/changed"   \* a value or its type differs after loading
         ELSE ""
    [] e.op = "replace" ->
         IF <<e.node, e.child>> \notin Slots THEN "driver/unknown-slot"
         ELSE IF e.res # "ok" THEN "C19.Replace/raised"
         ELSE IF e.holds # 1 THEN "C19.Replace/lost"                           \* node.child is not the assigned group
         ELSE IF BadAliases(e.node, e.child, e.aliases) # {} \/ ReplaceClobbered(e.node, e.child, e.changed, e.aliases) # {}
              THEN "C19.Replace/clobbered"                                     \* something outside the new group changed
         ELSE IF Garbled(e.differs, e.pvals) # {} THEN "C19.Replace/garbled"   \* neither built-with nor the parent's value
         ELSE ""
    [] e.op = "drawn" ->
         IF \E x \in SeqSet(e.obs) : ~ValidDesc(x) THEN "driver/descriptor"
         ELSE IF e.b > e.e \/ e.e > TMax THEN "driver/window"
         ELSE IF GammaOcc(e) # OccSet(e) THEN "driver/gamma-occupancy"       \* gamma did not build what the descriptor says
         ELSE IF MissingCells(e) # {} THEN "C19.Drawn/missing"
         ELSE IF ExtraCells(e) # {} \/ e.stray > 0 THEN "C19.Drawn/extra"
         ELSE ""
    [] e.op = "lanelets" ->
         LET want == LaneletsExpected(SeqSet(e.net), e.filter, SeqSet(e.ids))
             got  == SeqSet(e.lanelets)
         IN IF want \ got # {} THEN "C19.Lanelets/missing"
            ELSE IF got \ want # {} \/ e.stray > 0 THEN "C19.Lanelets/extra"
            ELSE IF e.defaults = 1 /\ PartsMissing(want, e.parts) # {} THEN "C19.Lanelets/part-missing"   \* fill / bound / arrow
            ELSE ""
    [] e.op = "lights" ->
         IF \E k \in SeqSet(e.lights) : ~ValidLight(k) THEN "driver/light"
         ELSE IF LightsMissing(e) # {} THEN "C19.Lights/missing"               \* a light without an artist
         ELSE IF LightsExtra(e) # {} THEN "C19.Lights/extra"
         ELSE IF LightsWrong(e) # {} THEN "C19.Lights/state"                   \* the artist does not show the state at time_begin
         ELSE ""
    [] e.op = "draw" ->
         IF e.part = "total" /\ (e.arch \notin Archetypes \/ e.win \notin Windows \/ e.view \notin Views
                                 \/ e.target \notin DrawTargets \/ e.via \notin Routes) THEN "driver/archetype"
         ELSE IF e.res # "ok" THEN "C19.Total/draw" ELSE ""
    [] e.op = "render" -> IF e.res \notin {"ok", "skipped"} THEN "C19.Total/render" ELSE ""
    [] OTHER -> "machinery/unknown-op"

TInit == tid \in 1..Len(Traces) /\ l = 1 /\ err = 0
TStep == /\ l <= Len(Traces[tid].ev)
         /\ LET e == Traces[tid].ev[l]
                c == Clause(e)
            IN err' = IF c = "" THEN err ELSE IF PrintT(<<"REJECT", tid, l, c>>) THEN err + 1 ELSE err
         /\ l' = l + 1 /\ UNCHANGED tid
TSpec == TInit /\ [][TStep]_tvars
=================================================================================
