SPECIFICATION TSpec
