--------------------------- MODULE Trace_ScenarioStore ---------------------------
(* Trace validation for C09: every public call recorded on a real Scenario (result, projected  *)
(* contained objects and probed reserved ids after the call) is checked against the contract   *)
(* of ScenarioStore.tla.  Trace actions are total: a rejected event is reported with the name   *)
(* of the failing clause and the specification state is re-synchronised to the logged state.   *)
EXTENDS ScenarioStore, Json, IOUtils
Traces == ndJsonDeserialize(IOEnv.TRACE_FILE)

VARIABLES tid, l, st, rsv, err
tvars == <<tid, l, st, rsv, err>>

PairFun(pairs, default) ==
    [n \in Lanelets |-> IF \E i \in DOMAIN pairs : pairs[i][1] = n
                        THEN Range((CHOOSE p \in Range(pairs) : p[1] = n)[2]) ELSE default[n]]
PostState(s, e) ==
    [C |-> Range(e.post.C) \cap ObjNames,
     sg |-> PairFun(e.post.sg, s.sg), lt |-> PairFun(e.post.lt, s.lt),
     gen |-> IF e.op = "gen" /\ e.res = "ok" THEN s.gen \cup {e.gid} ELSE s.gen,
     freed |-> s.freed \cup (Used(s.C) \ Used(Range(e.post.C) \cap ObjNames)),
     leak |-> Range(e.post.reserved) \ Used(Range(e.post.C) \cap ObjNames)]
AddedIds(a) == IF a.op = "add_list" THEN UNION {IdsObj(n) : n \in SeqSet(a.toks)}
               ELSE IF a.toks[1] \in NetNames THEN IdsNet(a.toks[1]) ELSE IdsObj(a.toks[1])

Clause(s, R0, e) ==
    LET a == [op |-> e.op, toks |-> e.toks, ref |-> e.ref]
        x == Exp(s, a)
        P == PostState(s, e)
        R == Range(e.post.reserved)
        isAdd == e.op \in {"add", "add_list", "replace"}
    IN
    IF ~PreOk(s, a) THEN "driver/precondition"
    ELSE IF e.post.unknown > 0 THEN "C09.Effect/unknown-object"
    ELSE IF e.op = "gen" THEN
         (IF e.res # "ok" THEN "C09.Total/gen"
          ELSE IF ~GenOk(s, e.gid) THEN "C09.GenFresh"
          ELSE IF Shape(P) # Shape(s) \/ R # R0 THEN "C09.Effect/gen" ELSE "")
    ELSE IF x.res # "any" /\ e.res # x.res THEN
         (IF x.res = "ValueError" THEN "C09.RejectRaises"
          ELSE IF e.res = "ValueError" /\ isAdd THEN (IF AddedIds(a) \cap s.freed # {} THEN "C09.ReAddable" ELSE "C09.AddAccepts")
          ELSE "C09.Total")
    ELSE IF e.res = "ValueError" /\ e.op = "add" /\ (Shape(P) # Shape(s) \/ R # R0) THEN "C09.RejectAtomic"
    ELSE IF ~x.any /\ Shape(P) \notin {Shape(p) : p \in x.posts} THEN
         (IF x.res = "ValueError" THEN "C09.RejectAtomic" ELSE "C09.Effect")
    ELSE IF ~Unique(P.C) THEN "C09.Unique"
    ELSE IF ~(Used(P.C) \subseteq R) THEN "C09.PoolExact/unreserved"
    ELSE IF ~((R \ Used(P.C)) \subseteq s.leak) THEN "C09.PoolExact"          \* a new leaked id
    ELSE ""

TInit == tid \in 1..Len(Traces) /\ l = 1 /\ st = Empty /\ rsv = {} /\ err = 0
TStep == /\ l <= Len(Traces[tid].ev)
         /\ LET e == Traces[tid].ev[l]
                c == Clause(st, rsv, e)
            IN /\ err' = IF c = "" THEN err ELSE IF PrintT(<<"REJECT", tid, l, c>>) THEN err + 1 ELSE err
               /\ st' = PostState(st, e)
               /\ rsv' = Range(e.post.reserved)
         /\ l' = l + 1 /\ UNCHANGED tid
TSpec == TInit /\ [][TStep]_tvars
===================================================================================
