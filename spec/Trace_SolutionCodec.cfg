SPECIFICATION TSpec
CONSTANTS
  DEV_ReaderNoKST = FALSE
  DEV_NoTruncate = FALSE
