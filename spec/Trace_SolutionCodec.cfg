SPECIFICATION TSpec
CONSTANTS
  DEV_ReaderNoKST = FALSE
