--------------------------- MODULE Trace_SolutionCodec ---------------------------
(* Trace validation for C14.  One trace per solution descriptor `sol`; the harness built the  *)
(* real Solution through public constructors, dumped it with CommonRoadSolutionWriter, read   *)
(* it back with CommonRoadSolutionReader.fromstring and logged                                *)
(*   write   res ("ok" / "exc:Type"), fields (the attribute names the driver fed, per pps)    *)
(*   schema  doc (abstract written document), lxml ("valid" / "invalid:<first error type>")   *)
(*   read    res                                                                              *)
(*   back    what + the projected read-back value(s) for that item                            *)
(* Expected values come from SolutionCodec!ReadBack / SchemaRule, never from the harness.     *)
EXTENDS SolutionCodec, SolutionFile, IOUtils
Traces == ndJsonDeserialize(IOEnv.TRACE_FILE)

VARIABLES tid, l, err
tvars == <<tid, l, err>>

(* the driver's concretisation must agree with the spec's tables and stay inside the statement's quantifier *)
DriverRule(e) ==        \* e = the write event, which carries the descriptor
  IF \E i \in DOMAIN e.sol.pps : LET p == e.sol.pps[i] IN
        ~(Admits(p.kind, p.model) /\ p.cost \in CostsOf(p.model) /\ p.vtype \in VTypes) THEN "driver/inadmissible-case"
  ELSE IF \E i \in DOMAIN e.sol.pps : LET p == e.sol.pps[i] IN
        Cardinality(Range(p.steps)) # Len(p.steps) \/ Len(p.steps) = 0 \/ Len(p.vals) # Len(p.steps) \/ \E s \in DOMAIN p.vals : Len(p.vals[s]) # NV(p.kind)
       THEN "driver/case-shape"
  ELSE IF e.sol.route \notin Routes THEN "driver/route"
  ELSE IF ~HistoryInScope(e.sol, [origin |-> e.origin, init |-> IF e.origin = "none" THEN e.sol ELSE e.init])
       THEN "driver/history"
  ELSE IF Cardinality({e.sol.pps[i].ppid : i \in DOMAIN e.sol.pps}) # Len(e.sol.pps) THEN "driver/duplicate-ppid"
  ELSE IF e.fields # [i \in 1..Len(e.sol.pps) |-> Fields[e.sol.pps[i].kind]] THEN "driver/field-table"
  ELSE ""

Same(expected, original, yes) == IF expected = "None" THEN "None" ELSE IF expected = original THEN yes ELSE "differs"

Back(e, sol) ==
  LET rb == ReadBack(sol)
      n  == Len(sol.pps)
      pp == sol.pps
  IN CASE e.what = "BenchmarkId" ->
            IF e.bid = 1 /\ e.scen = (IF rb.scen = sol.scen THEN 1 ELSE 0) /\ e.vids = rb.vids /\ e.cids = rb.cids
            THEN "" ELSE "C14.BenchmarkId"
       [] e.what = "ProblemIds" ->
            IF e.ppids = [i \in 1..n |-> rb.trajs[i].ppid] THEN "" ELSE "C14.ProblemIds"
       [] e.what = "TrajectoryType" ->
            IF e.ttypes = [i \in 1..n |-> TrajName[rb.trajs[i].kind]] THEN "" ELSE "C14.TrajectoryType"
       [] e.what = "TimeSteps" ->
            IF e.steps = [i \in 1..n |-> rb.trajs[i].steps] THEN "" ELSE "C14.TimeSteps"
       [] e.what = "Values" ->     \* e.vals[i][r][j] = the written states (indices in document order) whose leaf j is
                                   \* bit-identical to leaf j of the read-back state at position r
            IF /\ Len(e.vals) = n
               /\ \A i \in 1..n :
                    /\ Len(e.vals[i]) = Len(pp[i].steps)
                    /\ \A r \in 1..Len(pp[i].steps) :
                         LET src == SrcState(pp[i].steps, r) IN
                         /\ Len(e.vals[i][r]) = NV(pp[i].kind)
                         /\ \A j \in 1..NV(pp[i].kind) :
                              /\ rb.trajs[i].vals[r][j] = pp[i].vals[src][j]
                              /\ \E k \in DOMAIN e.vals[i][r][j] : e.vals[i][r][j][k] = src
            THEN "" ELSE "C14.Values"
       [] e.what = "ComputationTime" ->
            IF e.ct = Same(rb.ct, sol.ct, "exact") THEN "" ELSE "C14.ComputationTime"
       [] e.what = "ProcessorName" ->
            LET x == ProcExpect(rb.proc, sol.proc) IN       \* EITHER band: any projection is accepted
            IF (x = "EITHER" /\ e.proc \in {"None", "equal", "differs"}) \/ e.proc = x THEN "" ELSE "C14.ProcessorName"
       [] e.what = "Date" ->
            IF e.date = Same(rb.date, sol.date, "equal") /\ (e.date = "None" \/ TzOK(sol.date, e.tz))
            THEN "" ELSE "C14.Date"
       [] OTHER -> "machinery/unknown-item"

(* file-history traces (SolutionFile.tla): every event carries the file state observed before it (`pre`: which  *)
(* document's dump() the file's bytes equal - "None" no file, "other" none of them - and its size), so the check is  *)
(* per event; after a rejected write the next event starts from the logged state                                     *)
AsFile(p) == [doc |-> p.doc, len |-> p.len, tail |-> 0]
FileClause(e) ==
  CASE e.op = "fwrite" ->
         LET x == FileWrite(AsFile(e.pre), e.doc, e.len, e.ow = 1) IN
         IF e.res # x.res THEN "C14.File/result"
         ELSE IF e.post.doc # x.file.doc \/ e.post.len # Size(x.file) THEN "C14.File/content" ELSE ""
    [] e.op = "fread" ->
         IF e.pre.doc = "other" THEN ""                 \* already reported at the write that left it so
         ELSE IF e.res # FileReads(AsFile(e.pre)) THEN "C14.File/read" ELSE ""
    [] OTHER -> "machinery/unknown-op"

Clause(e, sol) ==      \* sol = descriptor of the trace (logged once, in its first event)
  CASE e.op = "write" ->
         IF DriverRule(e) # "" THEN DriverRule(e)
         ELSE IF e.res # "ok" THEN "C14.Total/write" ELSE ""
    [] e.op = "schema" ->          \* lxml with the shipped .xsd cross-checks the transcription; the verdict is the spec's
         LET acc == SchemaAccepts(e.doc) IN
         IF acc # (e.lxml = "valid") THEN "machinery/schema-transcription"
         ELSE IF SchemaApplies(sol) /\ ~acc THEN "C14.Schema/" \o SchemaRule(e.doc) ELSE ""
    [] e.op = "read" ->
         IF ReadBack(sol).err # "" THEN "machinery/readback-undefined"
         ELSE IF e.res # "ok" THEN "C14.Total/read" ELSE ""
    [] e.op = "back" -> Back(e, sol)
    [] OTHER -> "machinery/unknown-op"

TInit == tid \in 1..Len(Traces) /\ l = 1 /\ err = 0
TStep == /\ l <= Len(Traces[tid].ev)
         /\ LET e == Traces[tid].ev[l]
                c == IF Traces[tid].ev[1].op \in {"fwrite", "fread"} THEN FileClause(e)
                     ELSE IF Traces[tid].ev[1].op # "write" THEN "machinery/no-descriptor"
                     ELSE Clause(e, Traces[tid].ev[1].sol)
            IN err' = IF c = "" THEN err ELSE IF PrintT(<<"REJECT", tid, l, c>>) THEN err + 1 ELSE err
         /\ l' = l + 1 /\ UNCHANGED tid
TSpec == TInit /\ [][TStep]_tvars
=================================================================================
