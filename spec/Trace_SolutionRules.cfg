SPECIFICATION TSpec
