--------------------------- MODULE Trace_SolutionRules ---------------------------
(* Trace validation for X05: every call recorded on the real enums / StateType / TrajectoryType / *)
(* PlanningProblemSolution / Solution / CommonRoadSolutionWriter / CommonRoadSolutionReader       *)
(* (arguments, result, observable state of the object / the sandbox files after the call) is      *)
(* checked against the contract of SolutionRules.tla.  Trace steps are total: a rejected event is *)
(* reported with the name of the failing clause and the specification state is re-synchronised   *)
(* to what the event reports.                                                                     *)
EXTENDS SolutionRules, Json, IOUtils
Traces == ndJsonDeserialize(IOEnv.TRACE_FILE)

VARIABLES tid, l, st, err
tvars == <<tid, l, st, err>>

TInit == tid \in 1..Len(Traces) /\ l = 1 /\ st = Empty /\ err = 0
TStep == /\ l <= Len(Traces[tid].ev)
         /\ LET e == Traces[tid].ev[l]
                c == Clause(st, e)
            IN /\ err' = IF c = "" THEN err ELSE IF PrintT(<<"REJECT", tid, l, c>>) THEN err + 1 ELSE err
               /\ st' = IF e.op \in TabOps THEN st ELSE Post(st, e)
         /\ l' = l + 1 /\ UNCHANGED tid
TSpec == TInit /\ [][TStep]_tvars
=================================================================================
