SPECIFICATION TSpec
