--------------------------- MODULE Trace_SpatialIndex ---------------------------
(* Trace validation for C06.  Every event carries the lattice polygons of the network under test       *)
(* (`polys`, read off the real lanelets through public accessors), the query and what the library       *)
(* returned; the expected answer is recomputed here with the exact predicates of SpatialIndex.tla.       *)
(* A rejected event whose logged result is exactly what discs of HALF the radius would give gets the     *)
(* suffix "/half-radius" (named deviation: Circle.shapely_object = center.buffer(radius / 2)).           *)
EXTENDS SpatialIndex, IOUtils
Traces == ndJsonDeserialize(IOEnv.TRACE_FILE)

VARIABLES tid, l, err
tvars == <<tid, l, err>>

(* band (B2): the geometry went through a rotation by a float angle *)
(* finer lattice of an event (draw cases): points and polygons are given in units of 1/(2 sc), shapes in doubled coordinates *)
Sc(e) == IF "sc" \in DOMAIN e THEN e.sc ELSE 1
Sh(e, s) == ScaleShape(s, Sc(e))
Obs(e) == [k \in DOMAIN e.obs |-> [id |-> e.obs[k].id, occ |-> IF e.obs[k].occ = <<>> THEN <<>> ELSE <<Sh(e, e.obs[k].occ[1])>>]]
Noisy(e) == \E i \in DOMAIN e.routes : e.routes[i].r = "translate_rotate" /\ e.routes[i].a[3] % 4 # 0
KindName(s) == CASE s.k = "rect" -> "rectangle" [] s.k = "disc" -> "circle" [] s.k = "poly" -> "polygon" [] s.k = "group" -> "group"
Bits(q) == \A k \in DOMAIN q : q[k] \in {0, 1}
AnyDisc(obs) == \E k \in DOMAIN obs : obs[k].occ # <<>> /\ HasDisc(obs[k].occ[1])
(* name of a failed clause: plain, or "/half-radius" when the half-radius model explains the logged result *)
Named(base, disc, okHalf) == IF disc /\ okHalf THEN base \o "/half-radius" ELSE base

(* band (B3): lanelets touched by deferred steps since the last rebuild may or may not be reported *)
ByPosOk(e) == /\ Len(e.res) = Len(e.pts)
              /\ \A k \in DOMAIN e.pts : SetOkP(e.res[k], e.polys, LAMBDA P : PosRel(P, e.pts[k], Noisy(e)), Pending(e.routes))
ByShapeOk(e, h) == SetOkP(e.res, e.polys, LAMBDA P : ShapeRelH(P, Sh(e, e.shape), Noisy(e), h), Pending(e.routes))
ContPtsOk(e) == /\ Len(e.res) = Len(e.pts) /\ Bits(e.res) /\ e.lid \in Ids(e.polys)
                /\ \A k \in DOMAIN e.pts : Compat(e.res[k], PosRel(RingOfId(e.polys, e.lid), e.pts[k], Noisy(e)))
GetObsOk(e, h) == e.lid \in Ids(e.polys) /\ ObsOk(e.res, RingOfId(e.polys, e.lid), Obs(e), Noisy(e), h)
CPOk(e) == /\ Len(e.res) = Len(e.pts) /\ Bits(e.res)
           /\ \A k \in DOMAIN e.pts : Compat(e.res[k], ContainsPoint3(e.shape, e.pts[k], Noisy(e)))
ExpOk(e, h) == /\ Len(e.res) = Len(e.pts) /\ Bits(e.res)
               /\ \A k \in DOMAIN e.pts : Compat(e.res[k], Exported3H(e.shape, e.pts[k], Noisy(e), h))
AgreeOk(e) == /\ Len(e.cp) = Len(e.pts)
              /\ \A k \in DOMAIN e.pts : InAnyBand(e.shape, e.pts[k], Noisy(e)) \/ e.cp[k] = e.res[k]

(* one step of a construction route: `base` is the network before, `polys` the network after *)
SameRings(e)  == \A k \in DOMAIN e.polys : e.polys[k].id \in Ids(e.base) /\ e.polys[k].v = RingOfId(e.base, e.polys[k].id)
(* a step on a network B derived from another network A (events carry A before / after the step): A's lanelets stay as they are *)
Isolated(e) == "apolys" \in DOMAIN e => NetFn(e.apolys) = NetFn(e.abase)
RouteOk(e, h) ==
    /\ UniqueIds(e.polys)
    /\ CASE e.route = "translate_rotate" -> NetFn(e.polys) = NetFn(MoveNet(<<Sc(e) * e.a[1], Sc(e) * e.a[2], e.a[3]>>, e.base))
         [] e.route \in {"remove", "remove_nortree"} -> SameRings(e) /\ Ids(e.polys) = Ids(e.base) \ {e.a[1]}
         [] e.route \in {"add_extra", "add_extra_net"} ->
                NetFn(e.polys) = [i \in Ids(e.base) \cup {ExtraId} |-> IF i = ExtraId THEN Scale(RingOf(Extra), Sc(e)) ELSE NetFn(e.base)[i]]
         [] e.route \in {"from_network", "fork_network_cut"} -> /\ SameRings(e)
                                            /\ MustSet(e.base, LAMBDA P : ShapeRelH(P, Sh(e, e.cut), Noisy(e), h)) \subseteq Ids(e.polys)
                                            /\ Ids(e.polys) \subseteq MaySet(e.base, LAMBDA P : ShapeRelH(P, Sh(e, e.cut), Noisy(e), h))
         [] OTHER                        -> NetFn(e.polys) = NetFn(e.base)      \* builders (base = the lanelets handed over), copies, files

Clause(e) ==
  CASE e.op = "route" ->
         IF e.exc # "" THEN "C06.Total/route"
         ELSE IF e.route = "draw" /\ NetFn(e.polys) # NetFn(e.base) THEN "C06.Route/draw-moves-geometry"
         ELSE IF ~RouteOk(e, 1) THEN Named("C06.Route/" \o e.route, e.route = "from_network" /\ HasDisc(e.cut), RouteOk(e, 4))
         ELSE IF ~Isolated(e) THEN "C06.Route/isolated"
         (* drawing: every boundary array is bit-identical before and after (e.same, a projection of the driver) and on the lattice *)
         ELSE IF e.route = "draw" /\ e.same = 0 THEN "C06.Route/draw-moves-geometry" ELSE ""
    [] e.op = "find_by_position" ->
         IF e.exc # "" THEN "C06.Total/find_by_position" ELSE IF ~ByPosOk(e) THEN "C06.ByPosition" ELSE ""
    [] e.op = "find_by_shape" ->
         IF e.exc # "" THEN "C06.Total/find_by_shape"
         ELSE IF ~ByShapeOk(e, 1) THEN Named("C06.ByShape", HasDisc(e.shape), ByShapeOk(e, 4)) ELSE ""
    [] e.op = "contains_points" ->
         IF e.exc # "" THEN "C06.Total/contains_points" ELSE IF ~ContPtsOk(e) THEN "C06.ContainsPoints" ELSE ""
    [] e.op = "get_obstacles" ->
         IF e.exc # "" THEN "C06.Total/get_obstacles"
         ELSE IF ~GetObsOk(e, 1) THEN Named("C06.GetObstacles", AnyDisc(e.obs), GetObsOk(e, 4)) ELSE ""
    [] e.op = "map_obstacles" ->
         IF e.exc # "" THEN "C06.Total/map_obstacles"
         ELSE IF ~MapOk(e.res, e.polys, Obs(e), Noisy(e), 1)
              THEN Named("C06.MapObstacles", AnyDisc(e.obs), MapOk(e.res, e.polys, Obs(e), Noisy(e), 4)) ELSE ""
    [] e.op = "filter_obstacles" ->
         IF e.exc # "" THEN "C06.Total/filter_obstacles"
         ELSE IF ~FilterOk(e.res, e.polys, Obs(e), Noisy(e), 1)
              THEN Named("C06.FilterObstacles", AnyDisc(e.obs), FilterOk(e.res, e.polys, Obs(e), Noisy(e), 4)) ELSE ""
    [] e.op = "contains_point" ->
         IF e.exc # "" THEN "C06.Total/contains_point"
         ELSE IF ~CPOk(e) THEN "C06.Shape/contains_point/" \o KindName(e.shape) ELSE ""
    [] e.op = "exported_covers" ->
         IF e.exc # "" THEN "C06.Total/exported_covers"
         ELSE IF ~ExpOk(e, 1) THEN Named("C06.Shape/exported/" \o KindName(e.shape), HasDisc(e.shape), ExpOk(e, 4))
         ELSE IF ~AgreeOk(e) THEN "C06.Shape/agree/" \o KindName(e.shape) ELSE ""
    [] OTHER -> "machinery/unknown-op"

TInit == tid \in 1..Len(Traces) /\ l = 1 /\ err = 0
TStep == /\ l <= Len(Traces[tid].ev)
         /\ LET e == Traces[tid].ev[l]
                c == Clause(e)
            IN err' = IF c = "" THEN err ELSE IF PrintT(<<"REJECT", tid, l, c>>) THEN err + 1 ELSE err
         /\ l' = l + 1 /\ UNCHANGED tid
TSpec == TInit /\ [][TStep]_tvars
=================================================================================
