SPECIFICATION TSpec
