--------------------------- MODULE Trace_TrafficLight ---------------------------
(* Trace validation for C17: every recorded query of the real TrafficLightCycle /  *)
(* TrafficLight must return the colour StateAt() of TrafficLight.tla.              *)
EXTENDS TrafficLight, IOUtils
Traces == ndJsonDeserialize(IOEnv.TRACE_FILE)

VARIABLES tid, l, err
tvars == <<tid, l, err>>

Clause(e) ==
  CASE e.op \in {"cycle_state", "light_state"} ->
         IF e.res = "exc" THEN "C17.Total/" \o e.op
         ELSE IF e.res # StateAt(e.cyc, e.off, e.t) THEN "C17.ElemAt/" \o e.op ELSE ""
    [] e.op = "periodic" ->      \* res = state at t, res2 = state at t + total duration (both from the code)
         IF e.res # e.res2 THEN "C17.Periodic" ELSE ""
    [] OTHER -> "machinery/unknown-op"

TInit == tid \in 1..Len(Traces) /\ l = 1 /\ err = 0
TStep == /\ l <= Len(Traces[tid].ev)
         /\ LET e == Traces[tid].ev[l]
                c == Clause(e)
            IN err' = IF c = "" THEN err ELSE IF PrintT(<<"REJECT", tid, l, c>>) THEN err + 1 ELSE err
         /\ l' = l + 1 /\ UNCHANGED tid
TSpec == TInit /\ [][TStep]_tvars
=================================================================================
