SPECIFICATION TSpec
