--------------------------- MODULE Trace_TrafficRules ---------------------------
(* Trace validation for X03: every call recorded on a real TrafficSignInterpreter (+ the network  *)
(* it reads), TrafficSignElement / TrafficSign, Intersection (+ the network holding it) and       *)
(* GroundTruthPredictor (+ the scenario) - arguments, result, observable contents after the call  *)
(* - is checked against the contract of TrafficRules.tla.  Trace steps are total: a rejected event *)
(* is reported with the name of the failing clause and the specification state is re-synchronised *)
(* to the logged contents.                                                                         *)
EXTENDS TrafficRules, Json, IOUtils
Traces == ndJsonDeserialize(IOEnv.TRACE_FILE)

VARIABLES tid, l, st, err
tvars == <<tid, l, st, err>>

TInit == tid \in 1..Len(Traces) /\ l = 1 /\ st = Empty /\ err = 0
TStep == /\ l <= Len(Traces[tid].ev)
         /\ LET e == Traces[tid].ev[l]
                c == Clause(st, e)
            IN /\ err' = IF c = "" THEN err ELSE IF PrintT(<<"REJECT", tid, l, c>>) THEN err + 1 ELSE err
               /\ st' = Post(st, e)
         /\ l' = l + 1 /\ UNCHANGED tid
TSpec == TInit /\ [][TStep]_tvars
=================================================================================
