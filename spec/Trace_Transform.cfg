SPECIFICATION TSpec
