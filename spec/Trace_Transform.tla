---------------------------- MODULE Trace_Transform ----------------------------
(* Trace validation for C05.  One real translate_rotate call yields                                            *)
(*   call    [tgt, mix, exc, kinds]                    did the call return; which component kinds were observed  *)
(*   tr      [tgt, t, rot, mode, mix, kind, comps]     one event per component kind; comps = <<path, pts, oris>>  *)
(*             pts  entry <<x, y, nx, ny, fr, un>>: stored integer point before; after the call den * x' is within   *)
(*                  tolerance of the INTEGER nx iff fr = 1 (same for y); un = 1 iff the point is bit-for-bit where *)
(*                  it was.  The expected numerators are computed HERE (Image), never in the harness.              *)
(*             oris entry <<c, s, d, nc, ns, fr, un>>: orientation token before; after the call                    *)
(*                  (d den cos th', d den sin th') is within tolerance of the integers (nc, ns) iff fr = 1           *)
(*             mode "flt" (arbitrary float angle, rot = <<0,0,0,0>>): fr = 1 iff the point is within tolerance of   *)
(*                  R(a)(p + t) evaluated with math.cos / math.sin (a projection computed by the harness)           *)
(*   derived [tgt, q, vals]    vals entry <<name, same>>: quantity q of object `name` unchanged within 1e-9 relative *)
(*   undo    [tgt, t, rot, mode, steps, mix, kind, comps]  comps = <<path, back>>: back = 1 iff every stored value   *)
(*                  of the component is back at the original after TR followed by the logged undo steps              *)
(* Which components must have moved is decided here from the target path (InScope), not by the harness.           *)
EXTENDS Transform, Json, IOUtils
Traces == ndJsonDeserialize(IOEnv.TRACE_FILE)

VARIABLES tid, l, err
tvars == <<tid, l, err>>

P2(x) == <<x[1], x[2]>>
P3(x) == <<x[1], x[2], x[3]>>
(* comps entry <<path, pts, oris, vels>>; vels entry <<vx, vy, nx, ny, fr, un>>: stored velocity vector before, after the  *)
(* call den * v' is within tolerance of the integers (nx, ny) iff fr = 1 (mode "flt": fr = 1 iff v' is v turned by a),        *)
(* un = 1 iff both components are bit-for-bit what they were                                                                 *)
Proj(x) == [path |-> x[1], pts |-> [i \in DOMAIN x[2] |-> P2(x[2][i])], oris |-> [i \in DOMAIN x[3] |-> P3(x[3][i])],
            vels |-> [i \in DOMAIN x[4] |-> P2(x[4][i])]]
OfKind(e) == {d \in Range(WorldOf(Range(e.mix))) : d.kind = e.kind}
Expected(e) == {[path |-> c.path, pts |-> c.pts, oris |-> c.oris, vels |-> c.vels] : c \in OfKind(e)}
RuleOf(e, x) == (CHOOSE c \in OfKind(e) : c.path = x[1]).vrule

(* op "tr2": the object was moved by (t, rot) and then by (t2, rot); numerators are over den^2 resp. d * den^2 *)
PtOk(e, x)  == x[5] = 1 /\ (e.mode = "flt" \/ <<x[3], x[4]>> = (IF e.op = "tr2" THEN Image2(e.rot, e.t, e.t2, P2(x))
                                                                   ELSE Image(e.rot, e.t, P2(x))))
OriOk(e, o) == o[6] = 1 /\ (e.mode = "flt" \/ <<o[4], o[5]>> = P2(IF e.op = "tr2" THEN AngleSum2(P3(o), e.rot)
                                                                      ELSE AngleSum(P3(o), e.rot)))
AllUn(x)    == (\A i \in DOMAIN x[2] : x[2][i][6] = 1) /\ (\A i \in DOMAIN x[3] : x[3][i][7] = 1)
               /\ (\A i \in DOMAIN x[4] : x[4][i][6] = 1)
(* velocity of a component in scope: turned with the motion (point mass) or untouched (the state stores an orientation) *)
VelOk(e, x, v) == IF RuleOf(e, x) = "rotate"
                  THEN v[5] = 1 /\ (e.mode = "flt" \/ <<v[3], v[4]>> = VelImage(e.rot, P2(v)))
                  ELSE v[6] = 1
VelsOk(e, x) == \A i \in DOMAIN x[4] : VelOk(e, x, x[4][i])
PtsOk(e, x)  == \A i \in DOMAIN x[2] : PtOk(e, x[2][i])
OrisOk(e, x) == \A i \in DOMAIN x[3] : OriOk(e, x[3][i])
In(e, x)    == IsPrefix(e.tgt, x[1])

ClauseTr(e) ==
    LET X == Range(e.comps)
    IN IF {Proj(x) : x \in X} # Expected(e) \/ Len(e.comps) # Cardinality(Expected(e)) THEN "driver/world-mismatch"
       ELSE IF e.mode = "tok" /\ P3(e.rot) \o <<e.rot[4]>> \notin Rot THEN "driver/unknown-rotation-token"
       ELSE IF \E x \in X : In(e, x) /\ AllUn(x) /\ ~(PtsOk(e, x) /\ OrisOk(e, x) /\ VelsOk(e, x)) THEN "C05.Forgotten/" \o e.kind
       ELSE IF \E x \in X : In(e, x) /\ ~PtsOk(e, x)  THEN "C05.Image/" \o e.kind
       ELSE IF \E x \in X : In(e, x) /\ ~OrisOk(e, x) THEN "C05.Orientation/" \o e.kind
       ELSE IF \E x \in X : In(e, x) /\ ~VelsOk(e, x) THEN "C05.Velocity/" \o e.kind
       ELSE IF \E x \in X : ~In(e, x) /\ ~AllUn(x)    THEN "C05.Collateral/" \o e.kind
       ELSE ""

ClauseUndo(e) ==
    IF e.steps # UndoSteps(e.t, e.rot, e.mode) THEN "driver/undo-steps"
    ELSE IF {x[1] : x \in Range(e.comps)} # {c.path : c \in Expected(e)} THEN "driver/world-mismatch"
    ELSE IF \E x \in Range(e.comps) : IsPrefix(e.tgt, x[1]) /\ x[2] # 1 THEN "C05.Undo" ELSE ""

ClauseCall(e) ==
    IF e.tgt \notin Targets(WorldOf(Range(e.mix))) THEN "driver/unknown-target"
    ELSE IF Range(e.kinds) # KindsOf(Range(e.mix)) \/ e.level # Level(e.tgt) THEN "driver/missing-kind"
    ELSE IF e.exc # "None" THEN "C05.Total/" \o Level(e.tgt) ELSE ""

Clause(e) ==
    CASE e.op = "call"    -> ClauseCall(e)
      [] e.op = "tr"      -> ClauseTr(e)
      [] e.op = "tr2"     -> IF e.t2 # Partner(e.t) THEN "driver/sequence" ELSE ClauseTr(e)
      [] e.op = "undo"    -> ClauseUndo(e)
      [] e.op = "derived" -> IF \E i \in DOMAIN e.vals : e.vals[i][2] # 1 THEN "C05.Derived/" \o e.q ELSE ""
      [] OTHER -> "machinery/unknown-op"

TInit == tid \in 1..Len(Traces) /\ l = 1 /\ err = 0
TStep == /\ l <= Len(Traces[tid].ev)
         /\ LET e == Traces[tid].ev[l]
                c == Clause(e)
            IN err' = IF c = "" THEN err ELSE IF PrintT(<<"REJECT", tid, l, c>>) THEN err + 1 ELSE err
         /\ l' = l + 1 /\ UNCHANGED tid
TSpec == TInit /\ [][TStep]_tvars
=================================================================================
