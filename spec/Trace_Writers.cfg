SPECIFICATION TSpec
