------------------------------- MODULE Trace_Writers -------------------------------
(* Trace validation for C15: construction of writers and every write call on real                *)
(* CommonRoadFileWriter objects.  After each write the file is projected (decimal places of a    *)
(* probe number, multiplicity of the scenario's elements, planning problems present, an id of    *)
(* the date-stripped bytes, read-back equals the scenario) and compared with F(writer, kind).    *)
EXTENDS Writers, Json, IOUtils
Range(q) == {q[i] : i \in DOMAIN q}
Traces == ndJsonDeserialize(IOEnv.TRACE_FILE)

VARIABLES tid, l, writers, files, first, err, nlan
tvars == <<tid, l, writers, files, first, err, nlan>>
(* writers: handle -> [fmt, d]; files: path -> content id; first: Key -> content id of the first write with that key *)

Clause(e) ==
    IF e.op = "new" THEN (IF e.exc # "None" THEN "C15.Total/new" ELSE "")
    ELSE IF e.op = "edit" THEN (IF e.nl # nlan + 1 THEN "driver/edit" ELSE "")
    ELSE IF e.op = "fail" THEN ""          \* a write into a missing directory: raising or not, it must not affect later writes
    ELSE LET w == writers[e.w]
             skip == e.mode = "skip" /\ e.path \in DOMAIN files
             x == F(w, e.kind, nlan)
             k == Key(w, e.kind, nlan)
         IN IF e.exc # "None" THEN "C15.Total/write"
            ELSE IF skip THEN (IF e.cid # files[e.path] THEN "C15.SkipUntouched" ELSE "")
            ELSE IF e.fmt # x.fmt THEN "C15.Format"
            ELSE IF e.copies # x.copies THEN "C15.NoAccumulation"
            ELSE IF e.pp # x.pp THEN "C15.Content/planning-problems"
            ELSE IF e.nl # x.nl THEN "C15.CurrentScenario/lanelets"        \* the file shows the scenario as it is NOW
            ELSE IF x.fmt = "xml" /\ (e.nprobes < 8 \/ Range(e.digits) # {x.digits}) THEN "C15.OwnPrecision"   \* every probe number, wherever it is written
            ELSE IF k \in DOMAIN first /\ first[k] # e.cid THEN "C15.Deterministic"
            ELSE IF e.readback # 1 THEN "C15.ReadBack"
            ELSE ""

TInit == tid \in 1..Len(Traces) /\ l = 1 /\ writers = <<>> /\ files = [p \in {} |-> 0] /\ first = [k \in {} |-> 0] /\ err = 0 /\ nlan = 1
TStep == /\ l <= Len(Traces[tid].ev)
         /\ LET e == Traces[tid].ev[l]
                c == Clause(e)
            IN /\ err' = IF c = "" THEN err ELSE IF PrintT(<<"REJECT", tid, l, c>>) THEN err + 1 ELSE err
               /\ nlan' = IF e.op = "edit" THEN e.nl ELSE nlan
               /\ IF e.op = "new"
                  THEN writers' = Append(writers, [fmt |-> e.fmt, d |-> e.d]) /\ UNCHANGED <<files, first>>
                  ELSE IF e.op \in {"edit", "fail"} THEN UNCHANGED <<writers, files, first>>
                  ELSE /\ UNCHANGED writers
                       /\ files' = [p \in DOMAIN files \cup {e.path} |-> IF p = e.path THEN e.cid ELSE files[p]]   \* adopt what is on disk
                       /\ LET k == Key(writers[e.w], e.kind, nlan) IN
                          first' = IF k \in DOMAIN first \/ c # "" \/ (e.mode = "skip" /\ e.path \in DOMAIN files) THEN first
                                   ELSE [kk \in DOMAIN first \cup {k} |-> IF kk = k THEN e.cid ELSE first[kk]]
         /\ l' = l + 1 /\ UNCHANGED tid
TSpec == TInit /\ [][TStep]_tvars
===================================================================================
