------------------------------ MODULE TrafficLight ------------------------------
(* C17 - traffic-light state follows the cycle definition.                         *)
(* A cycle is a sequence of elements [d |-> duration, c |-> colour]; the reported  *)
(* state at time step t is the colour of the element whose window contains         *)
(* (t - offset) modulo the total duration.  Written from the statement, not from   *)
(* the cumsum/argmax code.                                                         *)
EXTENDS Integers, Sequences, FiniteSets, TLC, Json

CONSTANTS MaxElems, MaxDur, MaxOff, Colors, Periods

RECURSIVE SumTo(_, _)
SumTo(c, i) == IF i = 0 THEN 0 ELSE c[i].d + SumTo(c, i - 1)      \* d_1 + ... + d_i
Total(c)    == SumTo(c, Len(c))
Phase(c, off, t) == (t - off) % Total(c)                              \* in 0..Total-1 also for t < off
InWindow(c, i, r) == SumTo(c, i - 1) <= r /\ r < SumTo(c, i)
ElemAt(c, off, t) == CHOOSE i \in 1..Len(c) : InWindow(c, i, Phase(c, off, t))
StateAt(c, off, t) == c[ElemAt(c, off, t)].c

Elems  == [d : 1..MaxDur, c : Colors]
Cycles == UNION {[1..n -> Elems] : n \in 1..MaxElems}

(* ---- laws checked by TLC on the specification itself ---- *)
Partition(c)   == \A r \in 0..Total(c) - 1 : Cardinality({i \in 1..Len(c) : InWindow(c, i, r)}) = 1
Covers(c)      == \A i \in 1..Len(c) : Cardinality({r \in 0..Total(c) - 1 : InWindow(c, i, r)}) = c[i].d
Periodic(c, off, t) == StateAt(c, off, t + Total(c)) = StateAt(c, off, t)
InOrder(c, off) == \A i \in 1..Len(c) : \A k \in 0..c[i].d - 1 : ElemAt(c, off, off + SumTo(c, i - 1) + k) = i
=================================================================================
