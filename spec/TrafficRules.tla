----------------------------- MODULE TrafficRules -----------------------------
(* X03 (extended coverage) - traffic rule extraction, sign / intersection objects and the ground *)
(* truth predictor, written from their docstrings (and the messages of their argument checks):   *)
(*   TrafficSignInterpreter  scenario/traffic_sign_interpreter.py  speed_limit / required_speed   *)
(*   TrafficSignElement / TrafficSign  scenario/traffic_sign.py    values, ids, first_occurrence,  *)
(*                                                                 virtual, == / hash of lists     *)
(*   IntersectionIncomingElement / Intersection  scenario/intersection.py  setters + validation,   *)
(*                                                                 map_incoming_lanelets           *)
(*   LaneletNetwork.map_inc_lanelets_to_intersections (after edits of a contained intersection)   *)
(*   GroundTruthPredictor.predict  prediction/ground_truth_predictor.py                            *)
(* Functional core of the CONTRACT: no variables.  An event is [op, a (the arguments), results..]; *)
(* the contract is   Clause(st, e)  name of the violated clause ("" = accepted)                    *)
(*                   Post(st, e)    abstract state after e (re-synchronised to what e reports)     *)
(* Where a docstring is silent both behaviours are accepted (bands marked `silent`).              *)
EXTENDS Integers, Sequences, FiniteSets, TLC

Range(s) == {s[i] : i \in DOMAIN s}
Max(X)   == CHOOSE x \in X : \A y \in X : y <= x
Min(X)   == CHOOSE x \in X : \A y \in X : x <= y
B(x)     == IF x THEN 1 ELSE 0

(* ======================================================================================== *)
(* 1. Countries and their sign enums (SupportedTrafficSignCountry, TrafficSignIDCountries)  *)
(*    A family is named after the country whose enum class it is; Zamunda's is Germany's    *)
(*    ("TrafficSignIDZamunda = TrafficSignIDGermany  # default traffic sign IDs").          *)
(* ======================================================================================== *)
Countries  == {"GERMANY", "USA", "CHINA", "SPAIN", "RUSSIA", "ARGENTINA", "BELGIUM", "FRANCE", "GREECE", "CROATIA",
               "ITALY", "PUERTO_RICO", "AUSTRALIA", "ZAMUNDA"}
OwnFam(c)  == IF c = "ZAMUNDA" THEN "GERMANY" ELSE c        \* "country specific traffic sign enum"
DefaultFam == "GERMANY"
HasMax(f)  == f # "AUSTRALIA"                               \* the enum has a member MAX_SPEED
HasMin(f)  == f = "GERMANY"                                 \* the enum has a member MIN_SPEED
HasKind(f, k) == CASE k = "max" -> HasMax(f) [] k = "min" -> HasMin(f) [] OTHER -> TRUE
(* a sign element <<family, kind, value>>: kind in {"max", "min", "other"}; value >= 1 is the speed  *)
(* given as first additional value (on the grid of the event), 0 = no additional value, -1 = an       *)
(* additional value that is not a number                                                             *)
ValidEl(e) == HasKind(e[1], e[2])

(* ---- the road network as far as signs go ------------------------------------------------- *)
(* N = [lls: lanelet ids, signs: set of <<sign id, element list>>, refs: set of <<lanelet, sign id>>] *)
NetOfEvent(e) == [lls |-> Range(e.lls), signs |-> Range(e.signs), refs |-> Range(e.refs)]
NoNet         == [lls |-> {}, signs |-> {}, refs |-> {}]
SignIds(N)    == {s[1] : s \in N.signs}
ElsOf(N, sid) == (CHOOSE s \in N.signs : s[1] = sid)[2]
Seen(N, S)    == {sid \in SignIds(N) : \E l \in S : <<l, sid>> \in N.refs}   \* signs referenced by any of the lanelets
Elems(N, S)   == UNION {Range(ElsOf(N, sid)) : sid \in Seen(N, S)}
Rel(N, S, kind, F) == {e \in Elems(N, S) : e[2] = kind /\ e[1] \in F}
Dangling(N, S) == \E l \in S : \E r \in N.refs : r[1] = l /\ r[2] \notin SignIds(N)

(* answers are ints: k >= 1 the speed, 0 = None, -1 = an exception                            *)
(* speed_limit: "speed limit of provided lanelets or None if no speed limit exists" - the    *)
(* vehicle may not exceed any of them: the minimum; required_speed: "the required speed a    *)
(* vehicle has to drive on a set of lanelets" - it has to satisfy all of them: the maximum    *)
Pick(kind, G) == IF G = {} THEN 0 ELSE IF kind = "max" THEN Min(G) ELSE Max(G)
Answers(N, S, kind, F) ==
  LET E == Rel(N, S, kind, F)
      G == {e[3] : e \in {x \in E : x[3] >= 1}}
  IN {Pick(kind, G)} \cup (IF \E e \in E : e[3] < 1 THEN {-1} ELSE {})   \* silent: missing / unparsable value: raise or skip it
Must(c, kind) == IF HasKind(OwnFam(c), kind) THEN {OwnFam(c)} ELSE {}   \* elements of the country's own enum count
May(c, kind)  == Must(c, kind) \cup {DefaultFam}                        \* silent: elements of the default (Zamunda) enum
Acceptable(c, N, S, kind) ==
  Answers(N, S, kind, Must(c, kind)) \cup Answers(N, S, kind, May(c, kind))
  \cup (IF S \subseteq N.lls /\ ~Dangling(N, S) THEN {} ELSE {-1})       \* silent: unknown lanelet / dangling sign reference
(* the answer when nothing is left to interpretation *)
Definite(c, N, S, kind) == Pick(kind, {e[3] : e \in {x \in Rel(N, S, kind, Must(c, kind)) : x[3] >= 1}})

KindOf(op) == IF op \in {"i_speed", "v_speed"} THEN "max" ELSE "min"
NameOf(op) == IF op \in {"i_speed", "v_speed"} THEN "X03.SpeedLimit" ELSE "X03.RequiredSpeed"
(* e.fres: answer of an interpreter created for the call; e.res: answer of the interpreter that   *)
(* was created when the network was built ("extract traffic sign information from the road network") *)
QClause(c, N, e) ==
  LET kind == KindOf(e.op)
      S    == Range(e.a.S)
      A    == Acceptable(c, N, S, kind)
  IN IF e.fres \notin A
     THEN (IF OwnFam(c) # DefaultFam /\ e.fres \in Answers(N, S, kind, {DefaultFam}) THEN NameOf(e.op) \o "/country-enum-ignored"
           ELSE IF e.fres = -1 THEN NameOf(e.op) \o "/raises" ELSE NameOf(e.op) \o "/value")
     ELSE IF e.res \notin A THEN NameOf(e.op) \o "/stale-after-network-edit"
     ELSE ""

(* network edits the interpreter has to follow (add_traffic_sign "returns True if the traffic sign  *)
(* has successfully been added", an existing id: "No changes are made"; remove_traffic_sign          *)
(* "deletes all references"; TrafficSign.traffic_sign_elements setter)                               *)
IExpected(N, e) ==
  CASE e.op = "i_new"  -> [lls |-> Range(e.a.lls), signs |-> {}, refs |-> {}]
    [] e.op = "i_add"  -> IF e.a.sid \in SignIds(N) THEN N
                          ELSE [N EXCEPT !.signs = @ \cup {<<e.a.sid, e.a.els>>},
                                         !.refs  = @ \cup {<<l, e.a.sid>> : l \in Range(e.a.at) \cap N.lls}]
    [] e.op = "i_rm"   -> [N EXCEPT !.signs = {s \in @ : s[1] # e.a.sid}, !.refs = {r \in @ : r[2] # e.a.sid}]
    [] e.op = "i_setels" -> [N EXCEPT !.signs = {IF s[1] = e.a.sid THEN <<s[1], e.a.els>> ELSE s : s \in @}]
    [] OTHER -> N
IClause(I, e) ==
  IF e.op \in {"i_speed", "i_req"}
  THEN (IF NetOfEvent(e) # I.N THEN "X03.NetEdit/query-mutates" ELSE QClause(I.c, I.N, e))
  ELSE IF e.res # "ok" THEN "X03.NetEdit/raises"
  ELSE IF e.op = "i_add" /\ e.ret # B(e.a.sid \notin SignIds(I.N)) THEN "X03.NetEdit/add-return"
  ELSE IF NetOfEvent(e) # IExpected(I.N, e) THEN "X03.NetEdit/effect"
  ELSE ""
IPost(I, e) == [c |-> IF e.op = "i_new" THEN e.a.c ELSE I.c, N |-> NetOfEvent(e)]
NoInterp    == [c |-> "ZAMUNDA", N |-> NoNet]

(* value-like form: one network, one fresh interpreter (e.a = [c, S], network in the event) *)
VClause(e) == QClause(e.a.c, NetOfEvent(e), e)

(* ======================================================================================== *)
(* 2. TrafficSignElement.additional_values ("list of additional values of a traffic sign    *)
(*    element") of two elements: E = [live |-> <<b1, b2>>, vals |-> <<v1, v2>>]; an element *)
(*    constructed without values has none, and its values are its own                       *)
(* ======================================================================================== *)
NoEls == [live |-> <<0, 0>>, vals |-> <<<<>>, <<>>>>]
EClause(E, e) ==
  LET k == e.a.k
      o == 3 - k
      expk == CASE e.op = "e_new"     -> IF e.a.how = "default" THEN <<>> ELSE e.a.vals
                [] e.op = "e_append"  -> Append(E.vals[k], e.a.v)
                [] e.op = "e_setvals" -> e.a.vals
                [] OTHER -> E.vals[k]
  IN IF e.res # "ok" THEN "X03.SignElement/raises"
     ELSE IF e.op = "e_new" /\ e.a.how = "default" /\ e.post[k] # <<>> THEN "X03.SignElement/default-not-empty"
     ELSE IF e.post[k] # expk THEN "X03.SignElement/effect"
     ELSE IF E.live[o] = 1 /\ e.post[o] # E.vals[o] THEN "X03.SignElement/values-shared-between-elements"
     ELSE ""
EPost(E, e) == [live |-> [E.live EXCEPT ![e.a.k] = 1], vals |-> <<e.post[1], e.post[2]>>]

(* ---- TrafficSign attributes: G = [id, fo (set), fon (None), virt, nel] --------------------- *)
NoSign == [id |-> 0, fo |-> {}, fon |-> 0, virt |-> 0, nel |-> 0]
GOfEvent(e) == [id |-> e.pid, fo |-> Range(e.pfo), fon |-> e.pfon, virt |-> e.pvirt, nel |-> e.pnel]
FoMatch(exp, expn, got) == IF expn = 1 THEN got.fo = {}                       \* silent: None stays None or becomes the empty set
                           ELSE got.fon = 0 /\ got.fo = exp
GClause(G, e) ==
  LET P == GOfEvent(e) IN
  IF e.res # "ok" THEN "X03.SignAttr/raises"
  ELSE CASE e.op = "g_new" ->
         IF P.id # e.a.id \/ P.nel # e.a.nel \/ P.virt # (IF e.a.virt = -1 THEN 0 ELSE e.a.virt)   \* "virtual: bool = False"
            \/ ~FoMatch(Range(e.a.fo), e.a.fon, P) THEN "X03.SignAttr/constructor" ELSE ""
    [] e.op = "g_set" ->
         LET okId   == P.id   = (IF e.a.field = "id" THEN e.a.v ELSE G.id)
             okVirt == P.virt = (IF e.a.field = "virt" THEN e.a.v ELSE G.virt)
             okFo   == IF e.a.field = "fo" THEN FoMatch(Range(e.a.fo), e.a.fon, P) ELSE (P.fo = G.fo /\ P.fon = G.fon)
         IN IF ~okId \/ ~okVirt \/ ~okFo \/ P.nel # G.nel THEN "X03.SignAttr/setter" ELSE ""
    [] OTHER ->                              \* g_move (translate_rotate), g_2d (convert_to_2d): only the position changes
         IF P # G THEN "X03.SignAttr/moved-attributes" ELSE ""
GPost(G, e) == GOfEvent(e)

(* ======================================================================================== *)
(* 3. == / hash of objects holding a LIST of parts (TrafficSign: elements, TrafficSign-     *)
(*    Element: additional values, Intersection: incomings) beyond single-attribute changes  *)
(*    (C12): lists with repeated keys.  Same list -> equal; different SETS of parts -> not  *)
(*    equal; same set in another order / multiplicity: silent.  Equal objects hash equal.   *)
(* ======================================================================================== *)
Expected3(a, b) == IF a = b THEN "T" ELSE IF Range(a) = Range(b) THEN "EITHER" ELSE "F"
QEqClause(e) ==
  IF e.eqab = -1 \/ e.eqba = -1 \/ e.neab = -1 THEN "X03.Eq/raises"
  ELSE IF e.eqab # e.eqba THEN "X03.Eq/asymmetric"
  ELSE IF e.neab # 1 - e.eqab THEN "X03.Eq/ne-not-negation"
  ELSE LET x == Expected3(e.a.a, e.a.b) IN
       IF x = "T" /\ e.eqab # 1 THEN "X03.Eq/same-content-unequal"
       ELSE IF x = "F" /\ e.eqab # 0 THEN "X03.Eq/different-content-equal"
       ELSE IF e.eqab = 1 /\ e.hsame = 0 THEN "X03.Eq/equal-but-hash-differs"
       ELSE IF e.hsame = -1 THEN "X03.Eq/hash-raises"
       ELSE ""

(* ======================================================================================== *)
(* 4. Intersection: X = [live, id, incs: sequence of [iid, ll, lln, sr, ss, sl, lo], cr, crn] *)
(*    lln / crn = 1: the attribute is None; lo = 0: left_of is None                          *)
(* ======================================================================================== *)
NoInter == [live |-> 0, id |-> 0, incs |-> <<>>, cr |-> {}, crn |-> 0]
IncN(r) == [iid |-> r.iid, ll |-> Range(r.ll), lln |-> r.lln, sr |-> Range(r.sr), ss |-> Range(r.ss), sl |-> Range(r.sl),
            lo |-> r.lo]
XOfEvent(e) == [live |-> 1, id |-> e.pid, incs |-> [i \in DOMAIN e.pincs |-> IncN(e.pincs[i])], cr |-> Range(e.pcr),
                crn |-> e.pcrn]
(* ids: "Provided intersection_id / incoming_id is not valid" unless a natural number *)
IdOk(v, k) == IF v < 0 THEN "F" ELSE IF k \in {"int", "np"} THEN "T" ELSE "EITHER"     \* silent: True / 1.0 as ids
NewInc(a)  == [iid |-> a.iid, ll |-> Range(a.ll), lln |-> a.lln, sr |-> {}, ss |-> {}, sl |-> {}, lo |-> 0]
IncMatch(x, g) == /\ g.iid = x.iid /\ g.ll = x.ll /\ g.sr = x.sr /\ g.ss = x.ss /\ g.sl = x.sl /\ g.lo = x.lo
                  /\ g.lln \in (IF x.lln = 1 THEN {0, 1} ELSE {0})              \* silent: None stays None or becomes set()
XMatch(x, g) == /\ g.id = x.id /\ g.cr = x.cr /\ g.crn \in (IF x.crn = 1 THEN {0, 1} ELSE {0})
                /\ Len(g.incs) = Len(x.incs) /\ \A i \in DOMAIN x.incs : IncMatch(x.incs[i], g.incs[i])
SetInc(X, k, f(_)) == [X EXCEPT !.incs = [@ EXCEPT ![k] = f(@)]]
XApply(X, e) ==
  CASE e.op = "x_new"     -> [live |-> 1, id |-> e.a.id, incs |-> [i \in DOMAIN e.a.incs |-> NewInc(e.a.incs[i])],
                              cr |-> Range(e.a.cr), crn |-> e.a.crn]
    [] e.op = "x_setid"   -> [X EXCEPT !.id = e.a.v]
    [] e.op = "x_setcr"   -> [X EXCEPT !.cr = Range(e.a.cr), !.crn = e.a.crn]
    [] e.op = "x_setincs" -> [X EXCEPT !.incs = [i \in DOMAIN e.a.incs |-> NewInc(e.a.incs[i])]]
    [] e.op = "n_setid"   -> SetInc(X, e.a.k, LAMBDA r : [r EXCEPT !.iid = e.a.v])
    [] e.op = "n_setll"   -> SetInc(X, e.a.k, LAMBDA r : [r EXCEPT !.ll = Range(e.a.ll), !.lln = e.a.lln])
    [] e.op = "n_setsucc" -> SetInc(X, e.a.k, LAMBDA r : CASE e.a.dir = "r" -> [r EXCEPT !.sr = Range(e.a.s)]
                                                            [] e.a.dir = "s" -> [r EXCEPT !.ss = Range(e.a.s)]
                                                            [] OTHER         -> [r EXCEPT !.sl = Range(e.a.s)])
    [] e.op = "n_setlo"   -> SetInc(X, e.a.k, LAMBDA r : [r EXCEPT !.lo = e.a.v])
    [] OTHER -> X
(* which ids does the call hand to a validated setter *)
XIdVerdicts(e) ==
  CASE e.op = "x_new"   -> {IdOk(e.a.id, e.a.idk)} \cup {IdOk(e.a.incs[i].iid, "int") : i \in DOMAIN e.a.incs}
    [] e.op \in {"x_setid", "n_setid"} -> {IdOk(e.a.v, e.a.idk)}
    [] e.op = "x_setincs" -> {"T"}
    [] OTHER -> {"T"}
ULL(X) == UNION {X.incs[i].ll : i \in DOMAIN X.incs}            \* all incoming lanelets of the intersection
HasNoneLl(X) == \E i \in DOMAIN X.incs : X.incs[i].lln = 1
(* "Maps all incoming lanelet ids to IntersectionIncomingElement": m = list of <<lanelet, incoming id>> *)
MapOk(X, m) == /\ {p[1] : p \in Range(m)} = ULL(X)
               /\ \A p \in Range(m) : \E i \in DOMAIN X.incs : X.incs[i].iid = p[2] /\ p[1] \in X.incs[i].ll   \* silent: which one, if several
               /\ \A i, j \in DOMAIN m : i # j => m[i][1] # m[j][1]
XClause(X, e) ==
  LET P == XOfEvent(e) IN
  IF e.op \in {"x_map", "x_netmap"} THEN
       IF ~XMatch(X, P) THEN "X03.Intersection/query-mutates"
       ELSE IF e.res # "ok" THEN (IF HasNoneLl(X) THEN "X03.IncomingMap/raises-on-incoming-without-lanelets"
                                  ELSE "X03.IncomingMap/raises")
       ELSE IF e.op = "x_map" THEN
            (IF ~MapOk(X, e.m) THEN (IF {p[1] : p \in Range(e.m)} # ULL(X) THEN "X03.IncomingMap/domain"
                                     ELSE "X03.IncomingMap/wrong-incoming")
             ELSE IF e.ident # 1 THEN "X03.IncomingMap/foreign-object" ELSE "")
       ELSE \* "dict that maps lanelet ids to the intersection of which it is an incoming lanelet" (the network holds X and a second one)
            (IF Range(e.m) # {<<l, X.id>> : l \in ULL(X)} \cup {<<l, e.a.oid>> : l \in Range(e.a.oll)}
             THEN "X03.NetIncomingMap/not-current" ELSE "")
  ELSE
  LET V == XIdVerdicts(e)
      pre == IF e.op = "x_new" THEN NoInter ELSE X
  IN IF "F" \in V THEN (IF e.res = "ok" THEN "X03.Intersection/invalid-id-accepted"
                        ELSE IF e.op # "x_new" /\ ~XMatch(X, P) THEN "X03.Intersection/reject-not-atomic" ELSE "")
     ELSE IF e.res # "ok" THEN
          (IF V = {"T"} /\ ~(e.op = "x_new" /\ e.a.incs = <<>>)            \* silent: "defined by at least one incoming"
           THEN "X03.Intersection/valid-rejected"
           ELSE IF e.op # "x_new" /\ ~XMatch(X, P) THEN "X03.Intersection/reject-not-atomic" ELSE "")
     ELSE IF ~XMatch(XApply(pre, e), P) THEN "X03.Intersection/effect"
     ELSE ""
XPost(X, e) == IF e.op = "x_new" /\ e.res # "ok" THEN NoInter ELSE XOfEvent(e)

(* ======================================================================================== *)
(* 5. GroundTruthPredictor.predict(sc, initial_time_step = 0): "Applies prediction stored   *)
(*    in scenario ... Time step at which prediction should start".                          *)
(*    P = sequence of [oid, kind in {"traj", "set", "none"}, ts (time steps of the states / *)
(*    occupancies)] for the dynamic obstacles of the scenario                               *)
(* ======================================================================================== *)
POfEvent(e) == [i \in DOMAIN e.post |-> [oid |-> e.post[i].oid, kind |-> e.post[i].kind, ts |-> e.post[i].ts]]
Cut(ts, t0) == SelectSeq(ts, LAMBDA t : t >= t0)
InC(o, t0)  == o.kind = "traj" /\ \E i \in DOMAIN o.ts : o.ts[i] >= t0      \* something of the stored prediction is left
(* what the prediction object reports must follow its trajectory *)
Derived(q)  == q.kind # "traj" \/ (q.ts # <<>> /\ q.it0 = q.ts[1] /\ q.fin = q.ts[Len(q.ts)] /\ q.occ = q.ts)
CutOk(o, q, t0) == q.oid = o.oid /\ q.kind = "traj" /\ q.ts = Cut(o.ts, t0)
SameOb(o, q)    == q.oid = o.oid /\ q.kind = o.kind /\ q.ts = o.ts
Dropped(o, q)   == q.oid = o.oid /\ o.kind = "traj" /\ q.kind = "none"
PClause(P, e) ==
  CASE e.op = "p_new" ->
         IF e.res # "ok" \/ POfEvent(e) # [i \in DOMAIN e.a.obs |-> [oid |-> e.a.obs[i].oid, kind |-> e.a.obs[i].kind,
                                                                     ts |-> e.a.obs[i].ts]]
         THEN "driver/predictor-setup" ELSE ""
    [] e.op = "p_touch" ->
         IF POfEvent(e) # P THEN "X03.Predict/query-mutates"
         ELSE IF \E i \in DOMAIN e.post : ~Derived(e.post[i]) THEN "X03.Predict/derived-views" ELSE ""
    [] e.op = "p_predict" ->
         LET t0    == IF e.a.dflt = 1 THEN 0 ELSE e.a.t0
             Q     == e.post
             allIn == \A i \in DOMAIN P : InC(P[i], t0)
             frame == Len(Q) = Len(P) /\ \A i \in DOMAIN P : Q[i].oid = P[i].oid
             same  == frame /\ \A i \in DOMAIN P : SameOb(P[i], Q[i])
         IN IF ~frame THEN "X03.Predict/obstacles-changed"
            ELSE IF e.res = "crash" THEN (IF same THEN "X03.Predict/unhandled-exception"
                                          ELSE "X03.Predict/unhandled-exception+partial-update")
            ELSE IF e.res = "reject" THEN (IF allIn THEN "X03.Predict/valid-rejected"
                                           ELSE IF ~same THEN "X03.Predict/reject-not-atomic" ELSE "")
            ELSE IF e.same = -1 THEN "X03.Predict/return"                     \* silent: the same scenario or a new one
            ELSE IF \E i \in DOMAIN P : IF InC(P[i], t0) THEN ~CutOk(P[i], Q[i], t0)
                                        ELSE ~(SameOb(P[i], Q[i]) \/ Dropped(P[i], Q[i]))     \* silent: nothing left to apply
                 THEN "X03.Predict/cut"
            ELSE IF \E i \in DOMAIN Q : ~Derived(Q[i]) THEN "X03.Predict/derived-views-stale"
            ELSE ""
    [] OTHER -> "machinery/unknown-predictor-op"
PPost(P, e) == POfEvent(e)

(* ======================================================================================== *)
IOps == {"i_new", "i_add", "i_rm", "i_setels", "i_speed", "i_req"}
VOps == {"v_speed", "v_req"}
EOps == {"e_new", "e_append", "e_setvals"}
GOps == {"g_new", "g_set", "g_move", "g_2d"}
QOps == {"q_eq"}
XOps == {"x_new", "x_setid", "x_setcr", "x_setincs", "n_setid", "n_setll", "n_setsucc", "n_setlo", "x_map", "x_netmap"}
POps == {"p_new", "p_touch", "p_predict"}
Empty == [I |-> NoInterp, E |-> NoEls, G |-> NoSign, X |-> NoInter, P |-> <<>>]
Clause(st, e) == CASE e.op \in IOps -> IClause(st.I, e)
                   [] e.op \in VOps -> VClause(e)
                   [] e.op \in EOps -> EClause(st.E, e)
                   [] e.op \in GOps -> GClause(st.G, e)
                   [] e.op \in QOps -> QEqClause(e)
                   [] e.op \in XOps -> XClause(st.X, e)
                   [] e.op \in POps -> PClause(st.P, e)
                   [] OTHER -> "machinery/unknown-op"
Post(st, e) == [I |-> IF e.op \in IOps THEN IPost(st.I, e) ELSE st.I,
                E |-> IF e.op \in EOps THEN EPost(st.E, e) ELSE st.E,
                G |-> IF e.op \in GOps THEN GPost(st.G, e) ELSE st.G,
                X |-> IF e.op \in XOps THEN XPost(st.X, e) ELSE st.X,
                P |-> IF e.op \in POps THEN PPost(st.P, e) ELSE st.P]

(* ---- laws of the contract operators (checked by TLC in MC_TrafficRules) ------------------ *)
(* None = no bound: compare answers as bounds *)
Leq(kind, x, y) == IF kind = "max" THEN (y = 0 \/ (x # 0 /\ x <= y)) ELSE (y = 0 \/ (x # 0 /\ x >= y))   \* x at least as strict as y
Comb(kind, x, y) == IF x = 0 THEN y ELSE IF y = 0 THEN x ELSE Pick(kind, {x, y})
(* driving at v with required <= v <= limit respects every sign referenced by any of the lanelets *)
LawSafe(c, N, S) ==
  /\ \A e \in Rel(N, S, "max", Must(c, "max")) : e[3] >= 1 => (Definite(c, N, S, "max") # 0 /\ Definite(c, N, S, "max") <= e[3])
  /\ \A e \in Rel(N, S, "min", Must(c, "min")) : e[3] >= 1 => (Definite(c, N, S, "min") # 0 /\ Definite(c, N, S, "min") >= e[3])
  /\ \A kind \in {"max", "min"} : Definite(c, N, S, kind) # 0 =>
        \E e \in Rel(N, S, kind, Must(c, kind)) : e[3] = Definite(c, N, S, kind)          \* a posted value, nothing invented
LawUnion(c, N, S1, S2) == \A kind \in {"max", "min"} :
  Definite(c, N, S1 \cup S2, kind) = Comb(kind, Definite(c, N, S1, kind), Definite(c, N, S2, kind))
LawAntitone(c, N, S1, S2) == \A kind \in {"max", "min"} :
  S1 \subseteq S2 => Leq(kind, Definite(c, N, S2, kind), Definite(c, N, S1, kind))
LawDefiniteAccepted(c, N, S) == \A kind \in {"max", "min"} : Definite(c, N, S, kind) \in Acceptable(c, N, S, kind)
LawNoSigns(c, N, S) == Seen(N, S) = {} => \A kind \in {"max", "min"} : Acceptable(c, N, S, kind) \subseteq {0, -1}
LawCutCompose(ts, a, b) == Cut(Cut(ts, a), b) = Cut(ts, Max({a, b}))
LawCutAll(ts, a)        == (\A i \in DOMAIN ts : ts[i] >= a) => Cut(ts, a) = ts
LawCutSub(ts, a)        == Range(Cut(ts, a)) = {t \in Range(ts) : t >= a}
LawExpected3(a, b)      == Expected3(a, a) = "T" /\ Expected3(a, b) = Expected3(b, a)
=================================================================================
