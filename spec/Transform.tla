-------------------------------- MODULE Transform --------------------------------
(* C05 - translate_rotate is the exact rigid motion on every object.                                       *)
(* Functional core, written from the statement: translate_rotate(t, a) maps every stored point p to        *)
(* R(a)(p + t) and every stored orientation th to th + a (as an angle).  No trigonometry: rotations are     *)
(* TOKENS <<c, s, den, turns>> with c^2 + s^2 = den^2, i.e. cos a = c/den, sin a = s/den exactly; the       *)
(* float handed to the implementation is atan2(s, c) + 2 pi turns.  Stored points are integer points,       *)
(* stored orientations are tokens <<c, s, den>> (th = atan2(s, c)); images are exact rationals written      *)
(* as numerators over a known denominator.                                                                 *)
(* TLC integers are 32 bit: den <= 10001, |coordinates| <= 100, |translations| <= 70; the algebraic laws     *)
(* that multiply two images are stated for the tokens / pairs for which every product fits (AlgRot, Safe).  *)
EXTENDS Integers, Sequences, FiniteSets, TLC

Abs(x) == IF x < 0 THEN -x ELSE x
Range(q) == {q[i] : i \in DOMAIN q}

(* ---- the rotation table --------------------------------------------------------------------------------- *)
Axis    == {<<1, 0, 1>>, <<0, 1, 1>>, <<-1, 0, 1>>, <<0, -1, 1>>}
Triples == {<<3, 4, 5>>, <<5, 12, 13>>, <<8, 15, 17>>, <<20, 21, 29>>}
Octants(a, b, h) == {<<sa * a, sb * b, h>> : sa \in {-1, 1}, sb \in {-1, 1}} \cup
                    {<<sa * b, sb * a, h>> : sa \in {-1, 1}, sb \in {-1, 1}}
Pyth    == UNION {Octants(x[1], x[2], x[3]) : x \in Triples}
SmallM  == {20, 39, 40, 41, 100}     \* 2 atan(1/m) = 0.0999, 0.05125, 0.04999, 0.04877, 0.02 rad
Small   == UNION {{<<m * m - 1, 2 * m, m * m + 1>>, <<m * m - 1, -(2 * m), m * m + 1>>} : m \in SmallM}
Base    == Axis \cup Pyth \cup Small
(* atan2(s, c) lies in (-pi, pi]; adding a full turn stays within [-2 pi, 2 pi] iff the base angle is <= 0, *)
(* subtracting one iff it is >= 0 (atan2(0, -1) = +pi)                                                      *)
TurnOK(b, k) == \/ k = 0
                \/ k = 1  /\ (b[2] < 0 \/ (b[2] = 0 /\ b[1] > 0))
                \/ k = -1 /\ b[2] >= 0
Rot == {r \in {<<b[1], b[2], b[3], k>> : b \in Base, k \in {-1, 0, 1}} : TurnOK(r, r[4])}
ASSUME \A r \in Rot : r[1] * r[1] + r[2] * r[2] = r[3] * r[3] /\ r[3] > 0
Ident == <<1, 0, 1, 0>>
AlgRot == {r \in Rot : r[3] <= 2000}                       \* tokens whose images may be multiplied with each other

(* angle classes (the names used in violation signatures); thresholds on the exact sine, no floats          *)
IsSmallTok(r) == r[1] > 0 /\ r[3] > 1 /\ Abs(r[2]) * 10 < r[3]               \* |a| < 0.1002
AngleClass(r) == IF r[3] = 1 /\ r[4] = 0 THEN "axis"
                 ELSE IF r[4] # 0 /\ (IsSmallTok(r) \/ (r[3] = 1 /\ r[1] = 1)) THEN "near2pi"
                 ELSE IF r[4] = 0 /\ IsSmallTok(r) THEN
                      (IF Abs(r[2]) * 100000 <= 4998 * r[3] THEN "small<=0.05" ELSE "small>0.05")   \* sin 0.05 = 0.049979
                 ELSE "generic"

(* stored orientations: th = atan2(s, c) of a token <<c, s, den>> *)
OriTok == Axis \cup Octants(3, 4, 5)

(* ---- the motion ----------------------------------------------------------------------------------------- *)
(* translate, THEN rotate about the origin; numerators over r[3]                                             *)
Image(r, t, p) == <<r[1] * (p[1] + t[1]) - r[2] * (p[2] + t[2]), r[2] * (p[1] + t[1]) + r[1] * (p[2] + t[2])>>
(* th + a as a direction: numerators of (cos, sin) over o[3] * r[3]; equality of directions = equality of    *)
(* angles modulo a full turn                                                                                 *)
AngleSum(o, r) == <<o[1] * r[1] - o[2] * r[2], o[2] * r[1] + o[1] * r[2], o[3] * r[3]>>

(* the inverse rotation as a token (as a rotation the number of turns is irrelevant; keep it valid)          *)
Inv(r) == LET b == <<r[1], -r[2], r[3]>> IN <<b[1], b[2], b[3], IF TurnOK(b, -r[4]) THEN -r[4] ELSE 0>>
(* Undoing translate_rotate(t, a).  A step is <<tnx, tny, tden, rot>>: translation (tnx/tden, tny/tden).     *)
(*   "two": rotate back, then translate back: translate_rotate(0, -a); translate_rotate(-t, 0)               *)
(*   "one": a single call translate_rotate(t', -a) with t' = -R(a) t                                         *)
UndoSteps(t, r, mode) ==
    IF mode = "two" THEN << <<0, 0, 1, Inv(r)>>, <<-t[1], -t[2], 1, Ident>> >>
    ELSE LET rt == Image(r, <<0, 0>>, t) IN << <<-rt[1], -rt[2], r[3], Inv(r)>> >>
(* image of a rational point (X/D, Y/D) under a step with rational translation: numerators over D*tden*den,  *)
(* used only with D * tden * den small enough (see the laws)                                                 *)
ImageQ(r, tn, td, P, D) == LET x == P[1] * td + tn[1] * D   y == P[2] * td + tn[2] * D
                           IN <<r[1] * x - r[2] * y, r[2] * x + r[1] * y>>

(* ---- histories of motions ---------------------------------------------------------------------------------- *)
(* A second motion is a motion like the first one: applied to the same object it maps the CURRENT points, i.e. the   *)
(* original p ends at R(R(p + t1) + t2) (numerators over den^2, same angle token); applied to another object it is    *)
(* judged by Image alone.  What happened before in the same process must not matter.                                   *)
(* Sequences use pairs of translations that differ in one component by -1 vs -2.                                      *)
SeqPairs == { << <<-1, 3>>, <<-2, 3>> >>, << <<3, -1>>, <<3, -2>> >> }
Partner(tt) == (CHOOSE pr \in SeqPairs : pr[1] = tt)[2]
SeqSteps(tt, r, mode) == IF mode = "seq-same" THEN << <<Partner(tt)[1], Partner(tt)[2], 1, r>> >>
                         ELSE << <<Partner(tt)[1], Partner(tt)[2], 1, r>>, <<tt[1], tt[2], 1, r>> >>     \* "seq-other": 3 motions
Image2(r, t1, t2, p) == ImageQ(r, t2, 1, Image(r, t1, p), r[3])                  \* over den * den
AngleSum2(o, r) == AngleSum(AngleSum(o, r), r)                                   \* over o[3] * den * den
(* two motions with one angle are one motion: rotation 2a, translation t1 + R(-a) t2 (checked for small den)          *)
ComposeLaw(r, t1, t2, p) ==
    LET d == r[3]  c2 == r[1] * r[1] - r[2] * r[2]  s2 == 2 * r[1] * r[2]           \* cos 2a, sin 2a over d^2
        u == <<r[1] * t2[1] + r[2] * t2[2], r[1] * t2[2] - r[2] * t2[1]>>            \* R(-a) t2 over d
        x == d * (p[1] + t1[1]) + u[1]   y == d * (p[2] + t1[2]) + u[2]              \* p + t1 + R(-a) t2 over d
    IN <<d * Image2(r, t1, t2, p)[1], d * Image2(r, t1, t2, p)[2]>> = <<c2 * x - s2 * y, s2 * x + c2 * y>>

(* ---- laws (checked by TLC in MC_Transform) ---------------------------------------------------------------- *)
Dist2(p, q) == (p[1] - q[1]) * (p[1] - q[1]) + (p[2] - q[2]) * (p[2] - q[2])
Safe(r, p, q) == Dist2(p, q) <= 2000000000 \div (r[3] * r[3])          \* den^2 * dist^2 fits into 32 bit
DistLaw(r, t, p, q) == Safe(r, p, q) => Dist2(Image(r, t, p), Image(r, t, q)) = r[3] * r[3] * Dist2(p, q)
Cross(a, b, c) == (b[1] - a[1]) * (c[2] - a[2]) - (b[2] - a[2]) * (c[1] - a[1])
RECURSIVE FanArea2(_, _)
FanArea2(P, i) == IF i >= Len(P) THEN 0 ELSE Cross(P[1], P[i], P[i + 1]) + FanArea2(P, i + 1)
Area2(P) == FanArea2(P, 2)                                 \* twice the signed area, translation invariant form
AreaLaw(r, t, P) == Area2([i \in DOMAIN P |-> Image(r, t, P[i])]) = r[3] * r[3] * Area2(P)
UnitLaw(o, r) == LET d == AngleSum(o, r) IN d[1] * d[1] + d[2] * d[2] = d[3] * d[3]
UndoTwoLaw(r, t, p) ==        \* R(-a) R(a)(p + t) - t = p, with denominators den^2
    LET s == UndoSteps(t, r, "two")  q == Image(r, t, p)
        q1 == ImageQ(s[1][4], <<s[1][1], s[1][2]>>, s[1][3], q, r[3])                         \* over den * den
        q2 == <<q1[1] + s[2][1] * r[3] * r[3], q1[2] + s[2][2] * r[3] * r[3]>>                \* translate by -t
    IN q2 = <<p[1] * r[3] * r[3], p[2] * r[3] * r[3]>>
UndoOneLaw(r, t, p) ==        \* R(-a)(R(a)(p + t) - R(a) t) = p; the translation has the same denominator den
    LET s == UndoSteps(t, r, "one")[1]  q == Image(r, t, p)
        x == q[1] + s[1]  y == q[2] + s[2]                                                     \* over den
        iv == s[4]
    IN s[3] = r[3] /\ <<iv[1] * x - iv[2] * y, iv[2] * x + iv[1] * y>> = <<p[1] * r[3] * r[3], p[2] * r[3] * r[3]>>

(* ---- abstract spatial content of a scenario + planning problem set ----------------------------------------- *)
(* A component is [kind, role, path, pts, oris]: path = sequence of <<level kind, instance id>> from the root    *)
(* to the object that stores the data; pts = stored points; oris = stored orientations (tokens).                 *)
(* rectangles: centre + orientation; discs: centre; polygons: vertices (clockwise, as stored);                   *)
(* orientation intervals: <<start, end>>.  role = obstacle role the component belongs to ("none" otherwise).      *)
Roles == {"static", "dynamic", "phantom", "environment"}
(* vels = stored velocity vectors <<velocity, velocity_y>> (velocity_y = 0 when the state stores a speed only), vrule =  *)
(* what the motion does to them: "rotate" (point-mass: the vector is turned by a) or "keep" (body-frame speeds).       *)
CV(kind, role, path, pts, oris, vels, vrule) ==
    [kind |-> kind, role |-> role, path |-> path, pts |-> pts, oris |-> oris, vels |-> vels, vrule |-> vrule]
C(kind, role, path, pts, oris) == CV(kind, role, path, pts, oris, <<>>, "keep")
SC   == <<"scenario", "-">>
NET  == <<"lanelet_network", "-">>
L1   == <<"lanelet", "1">>
L2   == <<"lanelet", "2">>
L3   == <<"lanelet", "3">>          \* left neighbour of lanelet 1: its right boundary IS the left boundary of lanelet 1
ST   == <<"state", "-">>
PRED == <<"prediction", "-">>
TRAJ == <<"trajectory", "-">>
OS21 == <<"obstacle_static", "21">>
OD22 == <<"obstacle_dynamic", "22">>
OD23 == <<"obstacle_dynamic", "23">>
OD24 == <<"obstacle_dynamic", "24">>
OD25 == <<"obstacle_dynamic", "25">>        \* point-mass trajectory (position, velocity, velocity_y; heading derived)
OD29 == <<"obstacle_dynamic", "29">>        \* custom states with velocity components and no orientation
OP26 == <<"obstacle_phantom", "26">>
OE27 == <<"obstacle_environment", "27">>
OE28 == <<"obstacle_environment", "28">>
PPS  == <<"planning_problem_set", "-">>
PP31 == <<"planning_problem", "31">>
PP32 == <<"planning_problem", "32">>
PP33 == <<"planning_problem", "33">>        \* its goal region is a separate object that compares EQUAL to the one of 32
GOAL == <<"goal", "-">>
S(i) == <<"state", i>>
OCC(i) == <<"occupancy", i>>

BaseWorld == <<
  C("lanelet_left",   "none", <<SC, NET, L1>>, << <<0, 2>>, <<4, 2>>, <<8, 3>> >>, <<>>),
  C("lanelet_center", "none", <<SC, NET, L1>>, << <<0, 1>>, <<4, 1>>, <<8, 2>> >>, <<>>),
  C("lanelet_right",  "none", <<SC, NET, L1>>, << <<0, 0>>, <<4, 0>>, <<8, 1>> >>, <<>>),
  C("lanelet_polygon", "none", <<SC, NET, L1>>, << <<0, 0>>, <<0, 2>>, <<4, 2>>, <<8, 3>>, <<8, 1>>, <<4, 0>> >>, <<>>),
  C("stop_line",      "none", <<SC, NET, L1, <<"stop_line", "-">> >>, << <<8, 1>>, <<8, 3>> >>, <<>>),
  C("lanelet_left",   "none", <<SC, NET, L2>>, << <<8, 3>>, <<12, 5>> >>, <<>>),
  C("lanelet_center", "none", <<SC, NET, L2>>, << <<8, 2>>, <<12, 4>> >>, <<>>),
  C("lanelet_right",  "none", <<SC, NET, L2>>, << <<8, 1>>, <<12, 3>> >>, <<>>),
  C("stop_line",      "none", <<SC, NET, L2, <<"stop_line", "-">> >>, <<>>, <<>>),   \* a stop line without points: nothing stored, must not fail
  C("lanelet_polygon", "none", <<SC, NET, L2>>, << <<8, 1>>, <<8, 3>>, <<12, 5>>, <<12, 3>> >>, <<>>),
  C("lanelet_left",   "none", <<SC, NET, L3>>, << <<0, 4>>, <<4, 4>>, <<8, 5>> >>, <<>>),
  C("lanelet_center", "none", <<SC, NET, L3>>, << <<0, 3>>, <<4, 3>>, <<8, 4>> >>, <<>>),
  C("lanelet_right",  "none", <<SC, NET, L3>>, << <<0, 2>>, <<4, 2>>, <<8, 3>> >>, <<>>),
  C("lanelet_polygon", "none", <<SC, NET, L3>>, << <<0, 2>>, <<0, 4>>, <<4, 4>>, <<8, 5>>, <<8, 3>>, <<4, 2>> >>, <<>>),
  (* areas of the network: area 8 has two borders (polylines), area 9 has none; an Area / AreaBorder has no            *)
  (* translate_rotate of its own, the borders are stored points of the lanelet network                                   *)
  C("area_border",    "none", <<SC, NET, <<"area_border", "81">> >>, << <<0, 0>>, <<4, 0>>, <<8, 1>> >>, <<>>),
  C("area_border",    "none", <<SC, NET, <<"area_border", "82">> >>, << <<0, -2>>, <<4, -2>>, <<8, -1>> >>, <<>>),
  C("sign",           "none", <<SC, NET, <<"sign", "11">> >>, << <<4, -1>> >>, <<>>),
  C("light",          "none", <<SC, NET, <<"light", "12">> >>, << <<8, 4>> >>, <<>>),
  C("static_init",    "static",  <<SC, OS21, ST>>, << <<2, 1>> >>, << <<3, 4, 5>> >>),
  C("dynamic_init",   "dynamic", <<SC, OD22, ST>>, << <<0, 1>> >>, << <<1, 0, 1>> >>),
  C("trajectory_state", "dynamic", <<SC, OD22, PRED, TRAJ, S("0")>>, << <<2, 1>> >>, << <<1, 0, 1>> >>),
  C("trajectory_state", "dynamic", <<SC, OD22, PRED, TRAJ, S("1")>>, << <<4, 1>> >>, << <<4, 3, 5>> >>),
  C("trajectory_state", "dynamic", <<SC, OD22, PRED, TRAJ, S("2")>>, << <<6, 2>> >>, << <<3, 4, 5>> >>),
  C("trajectory_region", "dynamic", <<SC, OD22, PRED, TRAJ, S("3")>>, << <<8, 3>> >>, <<>>),
  C("trajectory_ori_interval", "dynamic", <<SC, OD22, PRED, TRAJ, S("3")>>, <<>>, << <<4, 3, 5>>, <<3, 4, 5>> >>),
  C("dynamic_init",   "dynamic", <<SC, OD23, ST>>, << <<1, -3>> >>, << <<0, 1, 1>> >>),
  C("occ_rect",       "dynamic", <<SC, OD23, PRED, OCC("0"), <<"shape_rect", "-">> >>, << <<3, -3>> >>, << <<4, 3, 5>> >>),
  C("occ_circle",     "dynamic", <<SC, OD23, PRED, OCC("1"), <<"shape_circle", "-">> >>, << <<5, -3>> >>, <<>>),
  C("occ_polygon",    "dynamic", <<SC, OD23, PRED, OCC("2"), <<"shape_polygon", "-">> >>,
                                 << <<6, -4>>, <<6, -1>>, <<9, -2>>, <<9, -4>> >>, <<>>),
  C("occ_group",      "dynamic", <<SC, OD23, PRED, OCC("3"), <<"shape_group", "-">> >>,
                                 << <<10, -3>>, <<12, -3>>, <<13, -4>>, <<14, -2>>, <<15, -4>> >>, << <<0, 1, 1>> >>),
  C("uncertain_pos",  "dynamic", <<SC, OD24, ST>>, << <<-5, 5>> >>, << <<3, 4, 5>> >>),
  C("uncertain_ori",  "dynamic", <<SC, OD24, ST>>, <<>>, << <<4, 3, 5>>, <<3, 4, 5>> >>),
  C("dynamic_init",   "dynamic", <<SC, OD25, ST>>, << <<-3, -9>> >>, << <<1, 0, 1>> >>),
  C("pm_position",    "dynamic", <<SC, OD25, PRED, TRAJ, S("0")>>, << <<-3, -8>> >>, <<>>),
  C("pm_heading",     "dynamic", <<SC, OD25, PRED, TRAJ, S("0")>>, <<>>, << <<3, 4, 5>> >>),     \* atan2(velocity_y, velocity)
  C("pm_position",    "dynamic", <<SC, OD25, PRED, TRAJ, S("1")>>, << <<0, -4>> >>, <<>>),
  C("pm_heading",     "dynamic", <<SC, OD25, PRED, TRAJ, S("1")>>, <<>>, << <<4, -3, 5>> >>),
  C("dynamic_init",   "dynamic", <<SC, OD29, ST>>, << <<-8, -12>> >>, << <<0, 1, 1>> >>),
  C("custom_position", "dynamic", <<SC, OD29, PRED, TRAJ, S("0")>>, << <<-8, -11>> >>, <<>>),   \* velocity components: not asserted
  C("custom_position", "dynamic", <<SC, OD29, PRED, TRAJ, S("1")>>, << <<-7, -10>> >>, <<>>),
  C("phantom_occ",    "phantom", <<SC, OP26, PRED, OCC("0")>>, << <<-10, 0>> >>, << <<-3, 4, 5>> >>),
  C("phantom_occ",    "phantom", <<SC, OP26, PRED, OCC("1")>>, << <<-12, 2>>, <<-9, 4>>, <<-9, 2>> >>, <<>>),
  C("env_shape",      "environment", <<SC, OE27>>, << <<20, 20>>, <<20, 23>>, <<24, 23>>, <<24, 20>> >>, <<>>),
  C("env_shape",      "environment", <<SC, OE28>>, << <<26, 14>> >>, << <<4, -3, 5>> >>),
  C("pp_init",        "none", <<PPS, PP31, ST>>, << <<0, 1>> >>, << <<1, 0, 1>> >>),
  C("goal_shape",     "none", <<PPS, PP31, GOAL, S("0")>>, << <<12, 4>> >>, << <<3, 4, 5>> >>),
  C("goal_ori",       "none", <<PPS, PP31, GOAL, S("0")>>, <<>>, << <<4, 3, 5>>, <<3, 4, 5>> >>),
  C("goal_lanelet",   "none", <<PPS, PP31, GOAL, S("1")>>, << <<8, 1>>, <<8, 3>>, <<12, 5>>, <<12, 3>> >>, <<>>),
  C("goal_ori",       "none", <<PPS, PP31, GOAL, S("2")>>, <<>>, << <<0, -1, 1>>, <<0, 1, 1>> >>),
  C("goal_shape",     "none", <<PPS, PP31, GOAL, S("3")>>, << <<-4, -8>> >>, <<>>),
  C("goal_shape",     "none", <<PPS, PP31, GOAL, S("4")>>, << <<-20, -10>>, <<-16, -7>>, <<-16, -10>> >>, <<>>),
  C("pp_init",        "none", <<PPS, PP32, ST>>, << <<-3, -3>> >>, << <<0, -1, 1>> >>),
  C("goal_shape",     "none", <<PPS, PP32, GOAL, S("0")>>, << <<-6, -6>> >>, << <<1, 0, 1>> >>),
  C("pp_init",        "none", <<PPS, PP33, ST>>, << <<-2, -5>> >>, << <<0, 1, 1>> >>),
  C("goal_shape",     "none", <<PPS, PP33, GOAL, S("0")>>, << <<-6, -6>> >>, << <<1, 0, 1>> >>)
>>
(* Rectangles export their planar geometry as corner points (public `vertices`, computed on demand from centre, size  *)
(* and orientation and possibly cached).  The exported corners are stored points too: they must move with the        *)
(* rectangle.  Corner = centre + R(orientation)(+-half length, +-half width), in the order of the public accessor;     *)
(* the reference rectangles have sizes for which the corners are integer points.                                       *)
(* entry: <<parent kind, role, path, centre, half length, half width, orientation token>>                              *)
Rects == <<
  <<"occ_rect",      "dynamic",     <<SC, OD23, PRED, OCC("0"), <<"shape_rect", "-">> >>,  <<3, -3>>,  10, 5, <<4, 3, 5>> >>,
  <<"occ_group",     "dynamic",     <<SC, OD23, PRED, OCC("3"), <<"shape_group", "-">> >>, <<10, -3>>, 2, 1,  <<0, 1, 1>> >>,
  <<"uncertain_pos", "dynamic",     <<SC, OD24, ST>>,                                      <<-5, 5>>,  10, 5, <<3, 4, 5>> >>,
  <<"phantom_occ",   "phantom",     <<SC, OP26, PRED, OCC("0")>>,                          <<-10, 0>>, 10, 5, <<-3, 4, 5>> >>,
  <<"env_shape",     "environment", <<SC, OE28>>,                                          <<26, 14>>, 10, 5, <<4, -3, 5>> >>,
  <<"goal_shape",    "none",        <<PPS, PP31, GOAL, S("0")>>,                           <<12, 4>>,  10, 5, <<3, 4, 5>> >>,
  <<"goal_shape",    "none",        <<PPS, PP32, GOAL, S("0")>>,                           <<-6, -6>>, 1, 1,  <<1, 0, 1>> >>,
  <<"goal_shape",    "none",        <<PPS, PP33, GOAL, S("0")>>,                           <<-6, -6>>, 1, 1,  <<1, 0, 1>> >>
>>
Corner(ctr, lx, ly, o) == <<ctr[1] + (lx * o[1] - ly * o[2]) \div o[3], ctr[2] + (lx * o[2] + ly * o[1]) \div o[3]>>
RectCorners(r) == << Corner(r[4], -r[5], -r[6], r[7]), Corner(r[4], -r[5], r[6], r[7]),
                     Corner(r[4], r[5], r[6], r[7]),   Corner(r[4], r[5], -r[6], r[7]) >>
ASSUME \A i \in DOMAIN Rects : LET r == Rects[i] IN
          /\ \A lx \in {-r[5], r[5]}, ly \in {-r[6], r[6]} :
                 (lx * r[7][1] - ly * r[7][2]) % r[7][3] = 0 /\ (lx * r[7][2] + ly * r[7][1]) % r[7][3] = 0
          /\ \E j \in DOMAIN BaseWorld : /\ BaseWorld[j].kind = r[1] /\ BaseWorld[j].path = r[3] /\ BaseWorld[j].role = r[2]
                                         /\ r[4] \in Range(BaseWorld[j].pts) /\ r[7] \in Range(BaseWorld[j].oris)
RectWorld == [i \in DOMAIN Rects |-> C("rect_corners/" \o Rects[i][1], Rects[i][2], Rects[i][3], RectCorners(Rects[i]), <<>>)]

(* ---- state classes by attribute combination ------------------------------------------------------------------------ *)
(* ori: "exact" stored angle | "interval" stored AngleInterval | "none" no orientation attribute | "derived" orientation  *)
(*      is a read-only property computed from the velocity components (PMState)                                           *)
(* vel: "xy" stores velocity and velocity_y | "x" stores velocity only | "none";   pos: 1 = stores a position             *)
(* RULE (statement: every stored orientation th maps to th + a): a state that stores an orientation gets                  *)
(* orientation + a and its velocity components are body-frame quantities and stay; a state WITHOUT a stored orientation   *)
(* that stores velocity and velocity_y is a point mass: its heading is the direction of the velocity vector, so the        *)
(* vector is rotated by a.                                                                                                *)
SCl(id, ori, vel, pos) == [id |-> id, ori |-> ori, vel |-> vel, pos |-> pos]
StateClasses == <<
  SCl("initial", "exact", "x", 1), SCl("ks", "exact", "x", 1), SCl("kst", "exact", "x", 1), SCl("st", "exact", "x", 1),
  SCl("std", "exact", "x", 1), SCl("mb", "exact", "xy", 1), SCl("pm", "derived", "xy", 1), SCl("extpm", "exact", "x", 1),
  SCl("lateral", "exact", "none", 0),
  SCl("c_e_xy", "exact", "xy", 1), SCl("c_e_x", "exact", "x", 1), SCl("c_e_n", "exact", "none", 1),
  SCl("c_n_xy", "none", "xy", 1),  SCl("c_n_x", "none", "x", 1),  SCl("c_n_n", "none", "none", 1),
  SCl("c_i_xy", "interval", "xy", 1), SCl("c_i_x", "interval", "x", 1), SCl("c_i_n", "interval", "none", 1) >>
VRule(sc) == IF sc.vel = "xy" /\ sc.ori \in {"none", "derived"} THEN "rotate" ELSE "keep"
OriList == << <<3, 4, 5>>, <<4, 3, 5>>, <<0, 1, 1>>, <<-3, 4, 5>>, <<4, -3, 5>>, <<-1, 0, 1>> >>
VelList == << <<3, 4>>, <<4, -3>>, <<-4, 3>>, <<-3, -4>> >>
SPos(i)  == <<2 * i - 19, 10 - i>>
SPts(i)  == IF StateClasses[i].pos = 1 THEN << SPos(i) >> ELSE <<>>
SOris(i) == LET sc == StateClasses[i] IN IF sc.ori = "exact" THEN << OriList[(i % 6) + 1] >>
                                         ELSE IF sc.ori = "interval" THEN << <<4, 3, 5>>, <<3, 4, 5>> >> ELSE <<>>
SVels(i) == LET sc == StateClasses[i] IN IF sc.vel = "xy" THEN << VelList[(i % 4) + 1] >>
                                         ELSE IF sc.vel = "x" THEN << <<i + 1, 0>> >> ELSE <<>>
(* heading used for the occupancy of a trajectory state: the stored angle, or the direction of the velocity vector      *)
HasHeading(i) == LET sc == StateClasses[i] IN sc.ori = "exact" \/ (sc.ori \in {"none", "derived"} /\ sc.vel = "xy")
Heading(i) == IF StateClasses[i].ori = "exact" THEN SOris(i)[1] ELSE <<SVels(i)[1][1], SVels(i)[1][2], 5>>
Parts == {"states", "statetraj", "stategoal"}
ODS(i) == <<"obstacle_dynamic", ToString(100 + i)>>
PP41 == <<"planning_problem", "41">>
SIdx == [i \in DOMAIN StateClasses |-> i]
WithPos == SelectSeq(SIdx, LAMBDA i : StateClasses[i].pos = 1)
WithHeading == SelectSeq(SIdx, LAMBDA i : StateClasses[i].pos = 1 /\ HasHeading(i))
GoalIdx == <<1, 2, 3, 4, 5, 6, 8, 7, 17>>          \* classes that can serve as goal states (position, velocity, orientation only)
(* stand-alone states (each its own root), trajectory states of one dynamic obstacle per class (+ the occupancy the       *)
(* obstacle reports for that state AFTER the motion: shape placed at the state), goal states of planning problem 41       *)
StateWorld ==
    [i \in DOMAIN StateClasses |-> CV("st/" \o StateClasses[i].id, "states", << <<"state", StateClasses[i].id>> >>,
                                      SPts(i), SOris(i), SVels(i), VRule(StateClasses[i]))]
    \o [k \in DOMAIN WithPos |-> LET i == WithPos[k] IN
           C("dynamic_init", "statetraj", <<SC, ODS(i), ST>>, << <<SPos(i)[1], SPos(i)[2] - 1>> >>, << <<1, 0, 1>> >>)]
    \o [k \in DOMAIN WithPos |-> LET i == WithPos[k] IN
           CV("tr/" \o StateClasses[i].id, "statetraj", <<SC, ODS(i), PRED, TRAJ, S("0")>>,
              SPts(i), SOris(i), SVels(i), VRule(StateClasses[i]))]
    \o [k \in DOMAIN WithHeading |-> LET i == WithHeading[k] IN
           C("tr.occ/" \o StateClasses[i].id, "statetraj", <<SC, ODS(i), PRED, TRAJ, <<"occupancy_query", "-">> >>,
             << SPos(i) >>, << Heading(i) >>)]
    \o << C("pp_init", "stategoal", <<PPS, PP41, ST>>, << <<0, 0>> >>, << <<1, 0, 1>> >>) >>
    \o [k \in DOMAIN GoalIdx |-> C("goal_shape", "stategoal", <<PPS, PP41, GOAL, S(ToString(k - 1))>>, << SPos(GoalIdx[k]) >>, <<>>)]
    \o SelectSeq([k \in DOMAIN GoalIdx |-> C("goal_ori", "stategoal", <<PPS, PP41, GOAL, S(ToString(k - 1))>>, <<>>,
                                               IF StateClasses[GoalIdx[k]].ori = "derived" THEN <<>> ELSE << <<4, 3, 5>>, <<3, 4, 5>> >>)],
                 LAMBDA c : c.oris # <<>>)
World == BaseWorld \o RectWorld \o StateWorld
(* components whose points form a polygon (signed area law) *)
IsPoly(c) == c.kind \in {"occ_polygon", "goal_lanelet", "lanelet_polygon"} \/ (c.kind \in {"env_shape", "phantom_occ", "goal_shape"} /\ Len(c.pts) >= 3)

(* a mix is a set of obstacle roles (the reference scenario + planning problems restricted to them) or a set of Parts  *)
(* (the state-class universes on their own)                                                                          *)
WorldOf(mix) == IF mix \cap Parts # {} THEN SelectSeq(World, LAMBDA c : c.role \in mix)
                ELSE SelectSeq(World, LAMBDA c : c.role = "none" \/ c.role \in mix)
Kinds == {World[i].kind : i \in DOMAIN World}
KindsOf(mix) == {c.kind : c \in Range(WorldOf(mix))}
LevelKinds(path) == [i \in DOMAIN path |-> path[i][1]]
(* every component kind lives at one place of the object tree *)
ASSUME \A i, j \in DOMAIN World : World[i].kind = World[j].kind => LevelKinds(World[i].path) = LevelKinds(World[j].path)
ASSUME \A i \in DOMAIN World : Range(World[i].oris) \subseteq OriTok

(* ---- TR(level, t, rot): the motion applied to the sub-tree addressed by a path prefix ----------------------- *)
IsPrefix(a, b) == Len(a) <= Len(b) /\ \A i \in DOMAIN a : a[i] = b[i]
InScope(tgt, c) == IsPrefix(tgt, c.path)
Level(tgt) == tgt[Len(tgt)][1]
NonTargets == {"occupancy_query", "area_border"}     \* a query result / a border polyline is not an object one can move
Targets(W) == {p \in UNION {{SubSeq(c.path, 1, n) : n \in 1..Len(c.path)} : c \in Range(W)} :
                   p[Len(p)][1] \notin NonTargets}
Children(W, tgt) == {p \in Targets(W) : Len(p) = Len(tgt) + 1 /\ IsPrefix(tgt, p)}
(* image of a component: points as numerators over den, directions as numerators over o[3] * den             *)
VelImage(r, v) == Image(r, <<0, 0>>, v)                    \* a velocity is a vector: rotated, never translated
VelKept(r, v)  == <<r[3] * v[1], r[3] * v[2]>>
Moved(c, t, r)   == [pts |-> [i \in DOMAIN c.pts |-> Image(r, t, c.pts[i])],
                     oris |-> [i \in DOMAIN c.oris |-> AngleSum(c.oris[i], r)],
                     vels |-> [i \in DOMAIN c.vels |-> IF c.vrule = "rotate" THEN VelImage(r, c.vels[i]) ELSE VelKept(r, c.vels[i])]]
Unmoved(c, r)    == [pts |-> [i \in DOMAIN c.pts |-> <<r[3] * c.pts[i][1], r[3] * c.pts[i][2]>>],
                     oris |-> [i \in DOMAIN c.oris |-> <<r[3] * c.oris[i][1], r[3] * c.oris[i][2], r[3] * c.oris[i][3]>>],
                     vels |-> [i \in DOMAIN c.vels |-> VelKept(r, c.vels[i])]]
TRComp(c, tgt, t, r) == IF InScope(tgt, c) THEN Moved(c, t, r) ELSE Unmoved(c, r)
TR(W, tgt, t, r) == [i \in DOMAIN W |-> TRComp(W[i], tgt, t, r)]
(* a motion that leaves this very point / direction where it is (then "moved" and "not moved" coincide)       *)
FixesPoint(r, t, p) == Image(r, t, p) = <<r[3] * p[1], r[3] * p[2]>>
FixesDir(r) == r[2] = 0 /\ r[1] > 0
===================================================================================
