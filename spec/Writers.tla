--------------------------------- MODULE Writers ---------------------------------
(* C15 - a file writer's output depends only on its own inputs.                                  *)
(* Functional core of the contract: the content a write produces is F(format, precision, kind)   *)
(* of the writer that writes - never of the history of other writers or earlier writes.          *)
(* File content is abstract: [fmt, digits (decimal places seen on a probe number; 0 for          *)
(* protobuf), copies (how often the scenario's elements occur), pp (planning problems present)]. *)
EXTENDS Integers, Sequences, FiniteSets, TLC

Formats == {"xml", "pb"}
Kinds   == {"full", "scenario"}              \* write_to_file / write_scenario_to_file
Modes   == {"always", "skip"}

(* nl: number of lanelets of the scenario AT THE TIME OF THE WRITE (the scenario the writer references is an input of  *)
(* every write: it may be edited between two writes of one writer)                                                  *)
F(w, kind, nl) == [fmt |-> w.fmt, digits |-> IF w.fmt = "xml" THEN w.d ELSE 0, copies |-> 1,
                   pp |-> IF kind = "full" THEN 1 ELSE 0, nl |-> nl]
Key(w, kind, nl) == <<w.fmt, IF w.fmt = "xml" THEN w.d ELSE 0, kind, nl>>   \* identically constructed writers share a key
Skipped(files, path, mode) == mode = "skip" /\ path \in DOMAIN files
NoFile == [fmt |-> "none", digits |-> 0, copies |-> 0, pp |-> 0, nl |-> 0]
===================================================================================
