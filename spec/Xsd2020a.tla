------------------------------ MODULE Xsd2020a ------------------------------
(* C03 - the shipped CommonRoad 2020a schema (XML_commonRoad_XSD.xsd) transcribed as DATA:            *)
(*   - for every complex type its content model (xs:sequence / xs:all / xs:choice with min/max occurs) *)
(*     and the type of every child element and attribute,                                              *)
(*   - for every simple type its lexical class,                                                        *)
(*   - the xs:key / xs:keyref constraint of the root element.                                          *)
(* Written from the .xsd (line numbers in comments), not from the writer.  `Accepts`, `LexOK`,         *)
(* `KeyRule` decide one element / text / document; `DocRule` names the first rule a document breaks.   *)
(* The transcription is cross-checked against lxml.etree.XMLSchema on every written document           *)
(* (Trace_Codec: disagreement = machinery/schema-transcription).                                       *)
(*                                                                                                     *)
(* A document is abstracted (by the harness, or by Codec!AbstractDoc) to a sequence of ELEMENT         *)
(* ENTRIES  [p  |-> <<element names from the root>>,  ch |-> <<names of the child elements>>,          *)
(*           tc |-> lexical class of the text,  tx |-> the text when it is not a number ("" else),     *)
(*           at |-> << <<attribute name, lexical class, text>> >>]                                     *)
(* in document order (identical entries may be merged).  Lexical classes of a text after whitespace    *)
(* collapse:  "int+" / "int0" / "int-"  [+-]?digits by sign of the value;  "dec+" / "dec0" / "dec-"    *)
(* digits with a decimal point, no exponent;  "exp" mantissa with exponent;  "nan" / "inf" any         *)
(* spelling of not-a-number / infinity;  "bool" true|false;  "time" hh:mm:ss;  "date" YYYY-MM-DD;      *)
(* "empty";  "other".  tx is kept for integers, short decimals, "bool" and "other" (enumeration values may be numerals).           *)
EXTENDS Integers, Sequences, FiniteSets, TLC

XRange(s) == {s[i] : i \in DOMAIN s}
U == 999                                             \* maxOccurs="unbounded"
Pt(n, lo, hi) == [n |-> n, lo |-> lo, hi |-> hi]     \* particle
One(n)  == Pt(n, 1, 1)
Opt(n)  == Pt(n, 0, 1)
Many(n) == Pt(n, 0, U)
Some(n) == Pt(n, 1, U)

(* content models *)
MSeq(ps)        == [k |-> "seq", ps |-> ps]                \* xs:sequence of element particles (distinct names)
MAll(ps)        == [k |-> "all", ps |-> ps]                \* xs:all
MChoice(alts)   == [k |-> "choice", alts |-> alts]         \* exactly one of several particle sequences
MStar(names)    == [k |-> "star", names |-> names]         \* xs:choice maxOccurs=unbounded of single elements (>= 1)
MEmpty          == [k |-> "empty"]                         \* attributes only
MSimple(lex)    == [k |-> "simple", lex |-> lex]           \* text of a simple type
MMixed          == [k |-> "mixed"]                         \* geoReference: mixed content, anything goes

At(n, lex, req) == [n |-> n, lex |-> lex, req |-> req]
XT(m, ch, at) == [m |-> m, ch |-> ch, at |-> at]            \* model, child name -> type name, attributes
NoAt == <<>>
RefT == XT(MEmpty, <<>>, <<At("ref", "integer", TRUE)>>)    \* laneletRef, trafficSignRef, trafficLightRef, incomingRef

(* ---------------------------------- enumerations (xs:restriction base xs:string) ------------------- *)
EnumLineMarking == {"dashed", "solid", "solid_solid", "dashed_dashed", "solid_dashed", "dashed_solid", "curb",
                    "lowered_curb", "broad_dashed", "broad_solid", "unknown", "no_marking"}                 \* 253-268
EnumDrivingDir  == {"same", "opposite"}                                                                     \* 284-289
EnumLaneletType == {"urban", "interstate", "country", "highway", "sidewalk", "crosswalk", "busLane", "bicycleLane",
                    "exitRamp", "mainCarriageWay", "accessRamp", "shoulder", "driveWay", "busStop", "intersection",
                    "border", "parking", "restricted", "restricted_area", "unknown"}                        \* 302-325
EnumVehicleType == {"vehicle", "car", "truck", "bus", "motorcycle", "bicycle", "pedestrian", "priorityVehicle",
                    "train", "taxi"}                                                                        \* 326-339
EnumLightColor  == {"red", "redYellow", "green", "yellow", "inactive"}                                      \* 657-665
EnumLightDir    == {"right", "straight", "left", "leftStraight", "straightRight", "leftRight", "all"}       \* 682-694
EnumTypeStatic  == {"unknown", "parkedVehicle", "constructionZone", "roadBoundary"}                         \* 731-738
EnumTypeDynamic == {"unknown", "car", "truck", "bus", "motorcycle", "bicycle", "pedestrian", "priorityVehicle",
                    "train", "taxi"}                                                                        \* 747-760
EnumTypeEnv     == {"unknown", "building", "pillar", "median_strip"}                                        \* 794-801
EnumTimeOfDay   == {"unknown", "night", "day"}                                                              \* 847-853
EnumWeather     == {"sunny", "light_rain", "heavy_rain", "fog", "snow", "hail"}                             \* 854-863
EnumUnderground == {"wet", "clean", "dirty", "damaged", "snow", "ice"}                                      \* 864-873
EnumVersion     == {"2020a"}                                                                                \* 939-945
EnumTags == {"interstate", "highway", "urban", "comfort", "critical", "evasive", "cut_in", "illegal_cutin",
             "intersection", "lane_change", "lane_following", "merging_lanes", "multi_lane", "no_oncoming_traffic",
             "oncoming_traffic", "parallel_lanes", "race_track", "roundabout", "rural", "simulated", "single_lane",
             "slip_road", "speed_limit", "traffic_jam", "turn_left", "turn_right", "two_lane", "emergency_braking"} \* 891-922
EnumTrafficSignID ==                                                                                        \* 359-641
  {"101", "102", "103-10", "103-20", "108", "114", "123", "124", "125", "131", "133-10", "133-20", "138",
   "142-10", "145-50", "201", "205", "206", "208", "209", "209-10", "209-20", "211-20", "215", "220-10",
   "220-20", "222-10", "222-20", "223.2", "223.2-50", "223.2-51", "224-50", "237", "239", "240", "242.1",
   "242.2", "244.1", "244.2", "245", "250", "251", "253", "254", "255", "257-54", "259", "260", "261", "262",
   "264", "265", "266", "267", "270.1", "270.2", "272", "274", "274.1", "274.2", "275", "276", "277", "278",
   "280", "281", "282", "283-10", "283-30", "286-30", "301", "306", "308", "310", "311", "314", "314-10",
   "314-20", "314-30", "325.1", "325.2", "327", "328", "330.1", "330.2", "331.1", "331.2", "332", "332.1", "333",
   "333-21", "333-22", "350", "354", "356", "357", "363", "365-51", "365-52", "365-60", "386.1", "386.2",
   "386.3", "406-50", "418-20", "419-20", "434-50", "430-20", "432-10", "432-20", "434", "438", "439", "440",
   "448", "449", "450-50", "450-51", "450-52", "450-53", "450-54", "450-55", "453", "458", "455.1-30", "460-10",
   "460-12", "460-20", "460-21", "460-22", "460-30", "501-15", "501-16", "511-22", "521-30", "521-31", "521-32",
   "521-33", "'525", "531-10", "531-20", "531-21", "533-22", "550-20", "600-35", "600-30", "600-31", "600-32",
   "600-34", "600-38", "605-10", "605-11", "605-20", "605-21", "605-31", "625-10", "625-11", "625-12", "625-13",
   "625-20", "625-21", "625-22", "625-23", "626-10", "626-20", "626-30", "626-31", "626-32", "628-10", "629-10",
   "629-20", "720", "1000", "1000-10", "1000-11", "1000-20", "1000-21", "1000-30", "1000-31", "1001-30",
   "1001-31", "1002-10", "1002-11", "1002-12", "1002-13", "1002-14", "1002-20", "1002-21", "1002-22", "1002-23",
   "1002-24", "1004-30", "1004-31", "1004-32", "1004-33", "1004-34", "1004-35", "1006-30", "1006-31", "1006-32",
   "1006-33", "1006-34", "1006-35", "1006-36", "1006-37", "1006-38", "1006-39", "1007-31", "1010-10", "1010-11",
   "1010-12", "1010-13", "1010-14", "1012-30", "1012-31", "1012-32", "1012-33", "1012-34", "1012-35", "1012-36",
   "1012-37", "1012-38", "1020-30", "1022-10", "1024-10", "1026-36", "1026-37", "1026-38", "1031-52", "1040-30",
   "1048-12", "1049-13", "1052-31", "1053-33", "1053-34", "1053-35", "2113", "R2-1", "R3-4", "CW20-1", "R7-1",
   "R7-4", "R7-201a", "R6-1L", "R6-1R", "R5-1", "R3-2", "R3-5R", "R3-8b", "R3-1", "R4-7", "W3-3", "R8-3gP",
   "R8-3", "R3-5L", "R3-27", "W1-3L", "W11-2", "M6-2aL", "W4-2R", "R7-8", "R7-107", "R8-3C", "R10-7", "W1-6L",
   "r1", "r2", "r100", "r101", "r106", "r107", "r205", "r301", "r305", "r307", "r308", "s13"}

Enums == [lineMarking |-> EnumLineMarking, drivingDir |-> EnumDrivingDir, laneletType |-> EnumLaneletType,
          vehicleType |-> EnumVehicleType, trafficLightColor |-> EnumLightColor, trafficLightDirection |-> EnumLightDir,
          obstacleTypeStatic |-> EnumTypeStatic, obstacleTypeDynamic |-> EnumTypeDynamic,
          obstacleTypeEnvironment |-> EnumTypeEnv, timeOfDay |-> EnumTimeOfDay, weather |-> EnumWeather,
          underground |-> EnumUnderground, version |-> EnumVersion, trafficSignID |-> EnumTrafficSignID]

(* ---------------------------------- lexical classes ------------------------------------------------ *)
(* xs:decimal: optional sign, digits, optional fraction - NO exponent, NO nan / inf (statement of C03) *)
Ints == {"int+", "int0", "int-"}
Decs == {"dec+", "dec0", "dec-"}
LexOK(lex, tc, tx) ==
  CASE lex = "decimal"            -> tc \in Ints \cup Decs
    [] lex = "positiveDecimal"    -> tc \in {"int+", "dec+"}                       \* 16-20 minExclusive 0.0
    [] lex = "integer"            -> tc \in Ints
    [] lex = "positiveInteger"    -> tc = "int+"
    [] lex = "nonNegativeInteger" -> tc \in {"int+", "int0"}
    [] lex = "integerZero"        -> tc = "int0"                                   \* 48-53
    [] lex = "boolean"            -> tc = "bool" \/ tx \in {"0", "1"}
    [] lex = "time"               -> tc = "time"
    [] lex = "date"               -> tc = "date"
    [] lex = "string"             -> TRUE
    [] lex \in DOMAIN Enums       -> tx \in Enums[lex]
    [] OTHER                      -> FALSE

(* ---------------------------------- complex types -------------------------------------------------- *)
StateAttrsXsd == <<"velocity", "acceleration", "yawRate", "slipAngle", "steeringAngle", "rollAngle", "rollRate",
                   "pitchAngle", "pitchRate", "velocityY", "positionZ", "velocityZ", "rollAngleFront", "rollRateFront",
                   "velocityYFront", "positionZFront", "velocityZFront", "rollAngleRear", "rollRateRear",
                   "velocityYRear", "positionZRear", "velocityZRear", "leftFrontWheelAngularSpeed",
                   "rightFrontWheelAngularSpeed", "leftRearWheelAngularSpeed", "rightRearWheelAngularSpeed",
                   "deltaYFront", "deltaYRear", "curvature", "curvatureChange", "jerk", "jounce">>   \* 131-162 / 170-201
StateChildTypes(timeType) ==
  [n \in {"position", "orientation", "time"} \cup XRange(StateAttrsXsd) |->
     IF n = "position" THEN "position" ELSE IF n = "time" THEN timeType ELSE "decimalEoI"]
StateModel == MAll(<<One("position"), One("orientation"), One("time")>> \o [i \in 1..Len(StateAttrsXsd) |-> Opt(StateAttrsXsd[i])])
SignalNames == <<"horn", "indicatorLeft", "indicatorRight", "brakingLights", "hazardWarningLights", "flashingBlueLights">>
SignalModel == MAll(<<One("time")>> \o [i \in 1..Len(SignalNames) |-> Opt(SignalNames[i])])
SignalChildTypes(timeType) == [n \in {"time"} \cup XRange(SignalNames) |-> IF n = "time" THEN timeType ELSE "xs_boolean"]
TagSeq == <<"interstate", "highway", "urban", "comfort", "critical", "evasive", "cut_in", "illegal_cutin", "intersection",
            "lane_change", "lane_following", "merging_lanes", "multi_lane", "no_oncoming_traffic", "oncoming_traffic",
            "parallel_lanes", "race_track", "roundabout", "rural", "simulated", "single_lane", "slip_road", "speed_limit",
            "traffic_jam", "turn_left", "turn_right", "two_lane", "emergency_braking">>
OccSetT == XT(MSeq(<<Some("occupancy")>>), [occupancy |-> "occupancy"], NoAt)
IdAt == <<At("id", "positiveInteger", TRUE)>>
DynSeq(pred) == <<One("type"), One("shape"), One("initialState"), Opt("initialSignalState"), One(pred), Opt("signalSeries")>>

Types ==
  [ \* simple types used as element types
    xs_decimal |-> XT(MSimple("decimal"), <<>>, NoAt), positiveDecimal |-> XT(MSimple("positiveDecimal"), <<>>, NoAt),
    xs_integer |-> XT(MSimple("integer"), <<>>, NoAt), xs_positiveInteger |-> XT(MSimple("positiveInteger"), <<>>, NoAt),
    xs_nonNegativeInteger |-> XT(MSimple("nonNegativeInteger"), <<>>, NoAt), integerZero |-> XT(MSimple("integerZero"), <<>>, NoAt),
    xs_boolean |-> XT(MSimple("boolean"), <<>>, NoAt), xs_string |-> XT(MSimple("string"), <<>>, NoAt),
    xs_time |-> XT(MSimple("time"), <<>>, NoAt),
    lineMarking |-> XT(MSimple("lineMarking"), <<>>, NoAt), laneletType |-> XT(MSimple("laneletType"), <<>>, NoAt),
    vehicleType |-> XT(MSimple("vehicleType"), <<>>, NoAt), trafficSignID |-> XT(MSimple("trafficSignID"), <<>>, NoAt),
    trafficLightColor |-> XT(MSimple("trafficLightColor"), <<>>, NoAt),
    trafficLightDirection |-> XT(MSimple("trafficLightDirection"), <<>>, NoAt),
    obstacleTypeStatic |-> XT(MSimple("obstacleTypeStatic"), <<>>, NoAt),
    obstacleTypeDynamic |-> XT(MSimple("obstacleTypeDynamic"), <<>>, NoAt),
    obstacleTypeEnvironment |-> XT(MSimple("obstacleTypeEnvironment"), <<>>, NoAt),
    timeOfDay |-> XT(MSimple("timeOfDay"), <<>>, NoAt), weather |-> XT(MSimple("weather"), <<>>, NoAt),
    underground |-> XT(MSimple("underground"), <<>>, NoAt),
    \* 22-69 exact / interval values
    decimalExact |-> XT(MAll(<<One("exact")>>), [exact |-> "xs_decimal"], NoAt),
    decimalInterval |-> XT(MSeq(<<One("intervalStart"), One("intervalEnd")>>),
                          [intervalStart |-> "xs_decimal", intervalEnd |-> "xs_decimal"], NoAt),
    decimalEoI |-> XT(MChoice(<< <<One("exact")>>, <<One("intervalStart"), One("intervalEnd")>> >>),
                                 [exact |-> "xs_decimal", intervalStart |-> "xs_decimal", intervalEnd |-> "xs_decimal"], NoAt),
    integerExactZero |-> XT(MAll(<<One("exact")>>), [exact |-> "integerZero"], NoAt),
    integerIvGt0 |-> XT(MSeq(<<One("intervalStart"), One("intervalEnd")>>),
                                     [intervalStart |-> "xs_nonNegativeInteger", intervalEnd |-> "xs_positiveInteger"], NoAt),
    integerEoIGt0 |->
        XT(MChoice(<< <<One("exact")>>, <<One("intervalStart"), One("intervalEnd")>> >>),
          [exact |-> "xs_positiveInteger", intervalStart |-> "xs_nonNegativeInteger", intervalEnd |-> "xs_positiveInteger"], NoAt),
    \* 71-125 geometry
    point |-> XT(MSeq(<<One("x"), One("y"), Opt("z")>>), [x |-> "xs_decimal", y |-> "xs_decimal", z |-> "xs_decimal"], NoAt),
    rectangle |-> XT(MSeq(<<One("length"), One("width"), Opt("orientation"), Opt("center")>>),
                    [length |-> "positiveDecimal", width |-> "positiveDecimal", orientation |-> "xs_decimal", center |-> "point"], NoAt),
    circle |-> XT(MSeq(<<One("radius"), Opt("center")>>), [radius |-> "positiveDecimal", center |-> "point"], NoAt),
    polygon |-> XT(MSeq(<<Pt("point", 3, U)>>), [point |-> "point"], NoAt),
    shape |-> XT(MStar({"rectangle", "circle", "polygon"}),
                [rectangle |-> "rectangle", circle |-> "circle", polygon |-> "polygon"], NoAt),
    position |-> XT(MChoice(<< <<One("point")>>, <<Some("rectangle")>>, <<Some("circle")>>, <<Some("polygon")>>, <<Some("lanelet")>> >>),
                   [point |-> "point", rectangle |-> "rectangle", circle |-> "circle", polygon |-> "polygon", lanelet |-> "ref"], NoAt),
    positionExact |-> XT(MAll(<<One("point")>>), [point |-> "point"], NoAt),
    positionInterval |-> XT(MChoice(<< <<Some("rectangle")>>, <<Some("circle")>>, <<Some("polygon")>>, <<Some("lanelet")>> >>),
                           [rectangle |-> "rectangle", circle |-> "circle", polygon |-> "polygon", lanelet |-> "ref"], NoAt),
    ref |-> RefT,
    \* 126-250 states
    state |-> XT(StateModel, StateChildTypes("integerEoIGt0"), NoAt),
    initialState |-> XT(StateModel, StateChildTypes("integerExactZero"), NoAt),
    initialSignalState |-> XT(SignalModel, SignalChildTypes("integerExactZero"), NoAt),
    signalState |-> XT(SignalModel, SignalChildTypes("integerEoIGt0"), NoAt),
    initialStateExact |-> XT(MAll(<<One("position"), One("velocity"), One("orientation"), One("yawRate"), One("slipAngle"),
                                   One("time"), Opt("acceleration")>>),
                            [position |-> "positionExact", velocity |-> "decimalExact", orientation |-> "decimalExact",
                             yawRate |-> "decimalExact", slipAngle |-> "decimalExact", time |-> "integerExactZero",
                             acceleration |-> "decimalExact"], NoAt),
    goalState |-> XT(MAll(<<One("time"), Opt("position"), Opt("orientation"), Opt("velocity")>>),
                    [time |-> "integerIvGt0", position |-> "positionInterval",
                     orientation |-> "decimalInterval", velocity |-> "decimalInterval"], NoAt),
    occupancy |-> XT(MSeq(<<One("shape"), One("time")>>), [shape |-> "shape", time |-> "integerEoIGt0"], NoAt),
    \* 269-356 lanelet
    bound |-> XT(MSeq(<<Pt("point", 2, U), Opt("lineMarking")>>), [point |-> "point", lineMarking |-> "lineMarking"], NoAt),
    laneletAdjacentRef |-> XT(MEmpty, <<>>, <<At("ref", "integer", TRUE), At("drivingDir", "drivingDir", TRUE)>>),
    stopLine |-> XT(MSeq(<<Pt("point", 0, 2), One("lineMarking"), Many("trafficSignRef"), Many("trafficLightRef")>>),
                   [point |-> "point", lineMarking |-> "lineMarking", trafficSignRef |-> "ref", trafficLightRef |-> "ref"], NoAt),
    lanelet |-> XT(MSeq(<<One("leftBound"), One("rightBound"), Many("predecessor"), Many("successor"), Opt("adjacentLeft"),
                         Opt("adjacentRight"), Opt("stopLine"), Some("laneletType"), Many("userOneWay"),
                         Many("userBidirectional"), Many("trafficSignRef"), Many("trafficLightRef")>>),
                  [leftBound |-> "bound", rightBound |-> "bound", predecessor |-> "ref", successor |-> "ref",
                   adjacentLeft |-> "laneletAdjacentRef", adjacentRight |-> "laneletAdjacentRef", stopLine |-> "stopLine",
                   laneletType |-> "laneletType", userOneWay |-> "vehicleType", userBidirectional |-> "vehicleType",
                   trafficSignRef |-> "ref", trafficLightRef |-> "ref"], IdAt),
    \* 642-723 signs, lights, intersections
    trafficSignElement |-> XT(MSeq(<<One("trafficSignID"), Many("additionalValue")>>),
                             [trafficSignID |-> "trafficSignID", additionalValue |-> "xs_string"], NoAt),
    trafficSign |-> XT(MSeq(<<Some("trafficSignElement"), Opt("position"), Many("virtual")>>),
                      [trafficSignElement |-> "trafficSignElement", position |-> "positionExact", virtual |-> "xs_boolean"], IdAt),
    trafficCycleElement |-> XT(MSeq(<<One("duration"), One("color")>>),
                              [duration |-> "xs_positiveInteger", color |-> "trafficLightColor"], NoAt),
    trafficLightCycle |-> XT(MSeq(<<Some("cycleElement"), Opt("timeOffset")>>),
                            [cycleElement |-> "trafficCycleElement", timeOffset |-> "xs_positiveInteger"], NoAt),
    trafficLight |-> XT(MSeq(<<One("cycle"), Opt("position"), Opt("direction"), Opt("active")>>),
                       [cycle |-> "trafficLightCycle", position |-> "positionExact", direction |-> "trafficLightDirection",
                        active |-> "xs_boolean"], IdAt),
    incoming |-> XT(MSeq(<<Some("incomingLanelet"), Many("successorsRight"), Many("successorsStraight"),
                          Many("successorsLeft"), Opt("isLeftOf")>>),
                   [incomingLanelet |-> "ref", successorsRight |-> "ref", successorsStraight |-> "ref",
                    successorsLeft |-> "ref", isLeftOf |-> "ref"], IdAt),
    crossing |-> XT(MSeq(<<Some("crossingLanelet")>>), [crossingLanelet |-> "ref"], NoAt),
    intersection |-> XT(MSeq(<<Some("incoming"), Many("crossing")>>), [incoming |-> "incoming", crossing |-> "crossing"], IdAt),
    \* 739-829 obstacles, planning problem
    staticObstacle |-> XT(MSeq(<<One("type"), One("shape"), One("initialState")>>),
                         [type |-> "obstacleTypeStatic", shape |-> "shape", initialState |-> "initialState"], IdAt),
    dynamicObstacle |-> XT(MChoice(<<DynSeq("trajectory"), DynSeq("occupancySet")>>),
                          [type |-> "obstacleTypeDynamic", shape |-> "shape", initialState |-> "initialState",
                           initialSignalState |-> "initialSignalState", trajectory |-> "trajectory",
                           occupancySet |-> "occupancySet", signalSeries |-> "signalSeries"], IdAt),
    trajectory |-> XT(MSeq(<<Some("state")>>), [state |-> "state"], NoAt),
    occupancySet |-> OccSetT,
    signalSeries |-> XT(MSeq(<<Some("signalState")>>), [signalState |-> "signalState"], NoAt),
    environmentObstacle |-> XT(MSeq(<<One("type"), One("shape")>>), [type |-> "obstacleTypeEnvironment", shape |-> "shape"], IdAt),
    phantomObstacle |-> XT(MSeq(<<One("occupancySet")>>), [occupancySet |-> "occupancySet"], IdAt),
    planningProblem |-> XT(MSeq(<<One("initialState"), Some("goalState")>>),
                          [initialState |-> "initialStateExact", goalState |-> "goalState"], IdAt),
    \* 830-922 location, tags
    geoReference |-> XT(MMixed, <<>>, NoAt),
    additionalTransf |-> XT(MSeq(<<One("xTranslation"), One("yTranslation"), One("zRotation"), One("scaling")>>),
                                   [xTranslation |-> "xs_decimal", yTranslation |-> "xs_decimal", zRotation |-> "xs_decimal",
                                    scaling |-> "positiveDecimal"], NoAt),
    geoTransformation |-> XT(MChoice(<< <<>>, <<One("geoReference"), One("additionalTransformation")>> >>),
                            [geoReference |-> "geoReference", additionalTransformation |-> "additionalTransf"], NoAt),
    environment |-> XT(MSeq(<<One("time"), One("timeOfDay"), One("weather"), One("underground")>>),
                      [time |-> "xs_time", timeOfDay |-> "timeOfDay", weather |-> "weather", underground |-> "underground"], NoAt),
    location |-> XT(MSeq(<<One("geoNameId"), One("gpsLatitude"), One("gpsLongitude"), Opt("geoTransformation"), Opt("environment")>>),
                   [geoNameId |-> "xs_integer", gpsLatitude |-> "xs_decimal", gpsLongitude |-> "xs_decimal",
                    geoTransformation |-> "geoTransformation", environment |-> "environment"], NoAt),
    tag |-> XT(MAll([i \in 1..Len(TagSeq) |-> Opt(TagSeq[i])]), [n \in XRange(TagSeq) |-> "xs_string"], NoAt),
    \* 924-961 root
    commonRoad |-> XT(MSeq(<<One("location"), One("scenarioTags"), Some("lanelet"), Many("trafficSign"), Many("trafficLight"),
                            Many("intersection"), Many("staticObstacle"), Many("dynamicObstacle"), Many("phantomObstacle"),
                            Many("environmentObstacle"), Some("planningProblem")>>),
                     [location |-> "location", scenarioTags |-> "tag", lanelet |-> "lanelet", trafficSign |-> "trafficSign",
                      trafficLight |-> "trafficLight", intersection |-> "intersection", staticObstacle |-> "staticObstacle",
                      dynamicObstacle |-> "dynamicObstacle", phantomObstacle |-> "phantomObstacle",
                      environmentObstacle |-> "environmentObstacle", planningProblem |-> "planningProblem"],
                     <<At("commonRoadVersion", "version", TRUE), At("benchmarkID", "string", TRUE), At("date", "date", TRUE),
                       At("author", "string", TRUE), At("affiliation", "string", TRUE), At("source", "string", TRUE),
                       At("timeStepSize", "decimal", TRUE)>>) ]


TKey(t) == t

(* ---------------------------------- acceptance ----------------------------------------------------- *)
Run(ch, j, name) == LET S == {k \in j..Len(ch) : ch[k] # name} IN                         \* leading run of `name` from j
                    IF S = {} THEN Len(ch) - j + 1 ELSE (CHOOSE k \in S : \A r \in S : k <= r) - j
RECURSIVE AccSeq(_, _, _, _)
AccSeq(ps, ch, i, j) == IF i > Len(ps) THEN j > Len(ch)
                        ELSE LET r == Run(ch, j, ps[i].n) IN r >= ps[i].lo /\ r <= ps[i].hi /\ AccSeq(ps, ch, i + 1, j + r)
Count(ch, name) == Cardinality({j \in DOMAIN ch : ch[j] = name})
AccAll(ps, ch) == /\ \A j \in DOMAIN ch : \E i \in DOMAIN ps : ps[i].n = ch[j]
                  /\ \A i \in DOMAIN ps : Count(ch, ps[i].n) >= ps[i].lo /\ Count(ch, ps[i].n) <= ps[i].hi
(* does content model m accept the sequence of child element names ch *)
AcceptsM(m, ch) == CASE m.k = "seq"    -> AccSeq(m.ps, ch, 1, 1)
                     [] m.k = "all"    -> AccAll(m.ps, ch)
                     [] m.k = "choice" -> \E a \in DOMAIN m.alts : AccSeq(m.alts[a], ch, 1, 1)
                     [] m.k = "star"   -> Len(ch) >= 1 /\ XRange(ch) \subseteq m.names
                     [] m.k = "mixed"  -> TRUE
                     [] OTHER          -> Len(ch) = 0                    \* empty, simple
Accepts(type, ch) == AcceptsM(Types[type].m, ch)

(* type of the element at a name path from the root; "?" when some step is not declared *)
RECURSIVE TypeOf(_)
TypeOf(p) == IF Len(p) = 1 THEN (IF p[1] = "commonRoad" THEN "commonRoad" ELSE "?")
             ELSE LET pt == TypeOf(SubSeq(p, 1, Len(p) - 1)) IN
                  IF pt = "?" THEN "?"
                  ELSE IF p[Len(p)] \in DOMAIN Types[pt].ch THEN TKey(Types[pt].ch[p[Len(p)]]) ELSE "?"

(* display name of an element for lexical clauses: parent type + element name *)
LexName(p) == IF Len(p) = 1 THEN p[1] ELSE TypeOf(SubSeq(p, 1, Len(p) - 1)) \o "." \o p[Len(p)]

AttrRule(t, at) ==
  LET decl == Types[t].at IN
  IF \E i \in DOMAIN decl : decl[i].req /\ ~\E j \in DOMAIN at : at[j][1] = decl[i].n THEN "ContentModel/" \o t
  ELSE IF \E j \in DOMAIN at : ~\E i \in DOMAIN decl : decl[i].n = at[j][1] THEN "ContentModel/" \o t
  ELSE LET bad == {j \in DOMAIN at : LET d == decl[CHOOSE i \in DOMAIN decl : decl[i].n = at[j][1]]
                                     IN ~LexOK(d.lex, at[j][2], at[j][3])} IN
       IF bad = {} THEN "" ELSE "Lexical/" \o t \o "@" \o at[CHOOSE j \in bad : \A r \in bad : j <= r][1]

(* first rule an element entry breaks ("" = none).  An element whose path is not declared was already *)
(* reported at its parent (ContentModel), so it yields nothing here.                                    *)
ElemRule(e) ==
  LET t == TypeOf(e.p) IN
  IF t = "?" THEN (IF Len(e.p) = 1 THEN "ContentModel/root" ELSE "")
  ELSE IF ~Accepts(t, e.ch) THEN "ContentModel/" \o t
  ELSE IF AttrRule(t, e.at) # "" THEN AttrRule(t, e.at)
  ELSE IF Types[t].m.k = "simple" /\ ~LexOK(Types[t].m.lex, e.tc, e.tx) THEN "Lexical/" \o LexName(e.p)
  ELSE ""

(* xs:key "id" (953-956): @id of the selected elements is present and unique; xs:keyref (957-960): every @ref, *)
(* anywhere, equals one of these ids.  ids: << <<path, id text>> >> of all elements with @id; refs: <<ref text>> *)
KeyPaths == {<<"commonRoad", n>> : n \in {"lanelet", "trafficSign", "trafficLight", "intersection", "staticObstacle",
                                          "dynamicObstacle", "phantomObstacle", "environmentObstacle", "planningProblem"}}
            \cup {<<"commonRoad", "intersection", "incoming">>}
KeyRule(ids, refs) ==
  LET sel == {i \in DOMAIN ids : ids[i][1] \in KeyPaths} IN
  IF \E i, j \in sel : i # j /\ ids[i][2] = ids[j][2] THEN "Key/unique"
  ELSE IF \E r \in DOMAIN refs : ~\E i \in sel : ids[i][2] = refs[r] THEN "Key/ref"
  ELSE ""

(* first rule of the schema a document breaks (document order), "" if it is valid *)
DocRule(els, ids, refs) == LET bad == {i \in DOMAIN els : ElemRule(els[i]) # ""} IN
                           IF bad # {} THEN ElemRule(els[CHOOSE i \in bad : \A r \in bad : i <= r]) ELSE KeyRule(ids, refs)
SchemaAccepts(els, ids, refs) == DocRule(els, ids, refs) = ""
=============================================================================
